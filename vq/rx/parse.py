"""Parser for exactly the `regex` syntax the rule base of /repo uses: literals, escapes,
classes, capturing / named / non-capturing groups, |, ? * +, (?(DEFINE)...), (?&name), (?i),
(?<!...), (?!...).  Anything else raises SyntaxError -> the obligation that needed the pattern
is inconclusive, so a mutated pattern can never be silently mis-modelled.

AST nodes: ("seq", [..]) ("alt", [..]) ("opt"|"star"|"plus", n) ("grp", name|None|"", n)
("nlb", n) ("nla", n) ("call", name) ("define", n) ("flag", "i") ("cls", neg, items)
("esc", c) ("chr", c) ("any",) ; class items: ("chr", c) ("esc", c) ("range", a, b)
"""
class P:
    def __init__(s, txt): s.t = txt; s.i = 0
    def peek(s): return s.t[s.i] if s.i < len(s.t) else None
    def eat(s, c=None):
        ch = s.t[s.i]
        if c is not None and not s.t.startswith(c, s.i): raise SyntaxError("expected %r at %d in %r" % (c, s.i, s.t[max(0,s.i-10):s.i+10]))
        s.i += len(c) if c else 1
        return ch
    def alt(s):
        branches = [s.seq()]
        while s.peek() == "|":
            s.eat("|"); branches.append(s.seq())
        return ("alt", branches) if len(branches) > 1 else branches[0]
    def seq(s):
        items = []
        while s.peek() is not None and s.peek() not in "|)":
            a = s.atom()
            if a is None: continue
            c = s.peek()
            if c in ("?", "*", "+"):
                s.eat()
                if s.peek() in ("?", "+"): raise SyntaxError("lazy/possessive")
                a = ({"?": "opt", "*": "star", "+": "plus"}[c], a)
            elif c == "{":
                j = s.t.index("}", s.i); body = s.t[s.i + 1:j]; s.i = j + 1
                if s.peek() in ("?", "+"): raise SyntaxError("lazy/possessive")
                lo, _, hi = body.partition(",")
                lo = int(lo); hi = lo if "," not in body else (int(hi) if hi else None)
                if hi is None: a = ("seq", [a] * lo + [("star", a)])
                else: a = ("seq", [a] * lo + [("opt", a)] * (hi - lo))
            items.append(a)
        return ("seq", items)
    def atom(s):
        c = s.peek()
        if c == "(":
            s.eat()
            if s.t.startswith("?:", s.i): s.i += 2; r = s.alt(); s.eat(")"); return ("grp", None, r)
            if s.t.startswith("?P<", s.i) or (s.t.startswith("?<", s.i) and s.t[s.i+2] not in "!="):
                s.i += 3 if s.t.startswith("?P<", s.i) else 2
                j = s.t.index(">", s.i); name = s.t[s.i:j]; s.i = j + 1
                r = s.alt(); s.eat(")"); return ("grp", name, r)
            if s.t.startswith("?<!", s.i): s.i += 3; r = s.alt(); s.eat(")"); return ("nlb", r)
            if s.t.startswith("?!", s.i): s.i += 2; r = s.alt(); s.eat(")"); return ("nla", r)
            if s.t.startswith("?&", s.i):
                j = s.t.index(")", s.i); name = s.t[s.i+2:j]; s.i = j + 1; return ("call", name)
            if s.t.startswith("?(DEFINE)", s.i):
                s.i += 9; r = s.alt(); s.eat(")"); return ("define", r)
            if s.t.startswith("?i)", s.i): s.i += 3; return ("flag", "i")
            if s.t.startswith("?", s.i): raise SyntaxError("unsupported group at %d: %r" % (s.i, s.t[s.i:s.i+6]))
            r = s.alt(); s.eat(")"); return ("grp", "", r)
        if c == "[":
            s.eat(); neg = False
            if s.peek() == "^": neg = True; s.eat()
            items = []
            while s.peek() != "]":
                a = s.cls_atom()
                if s.peek() == "-" and s.t[s.i+1] != "]":
                    s.eat(); b = s.cls_atom(); items.append(("range", a, b))
                else: items.append(a)
            s.eat("]"); return ("cls", neg, items)
        if c == "\\":
            s.eat(); e = s.eat()
            if e in "dswb": return ("esc", e)
            if e in "DSWB": return ("esc", e)
            return ("chr", e)
        if c == ".": s.eat(); return ("any",)
        if c in "^$": raise SyntaxError("anchor")
        s.eat(); return ("chr", c)
    def cls_atom(s):
        c = s.eat()
        if c == "\\":
            e = s.eat()
            if e in "dsw": return ("esc", e)
            return ("chr", e)
        return ("chr", c)
def parse(txt):
    p = P(txt); r = p.alt()
    if p.i != len(txt): raise SyntaxError("trailing %r" % txt[p.i:])
    return r
