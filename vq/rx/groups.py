"""Structure of a rule pattern, derived from its AST (regenerated from the live pattern text):

* presence patterns — which named groups can participate together in one match;
* the finite language of a numeric group (e.g. `(?P<day>(?&_day))`) and hence the set of
  integers its text can denote.
"""
from itertools import product
from typing import Dict, FrozenSet, List, Optional, Set, Tuple

from .parse import parse


class Unsupported(Exception):
    pass


def split_pattern(pattern: str):
    """-> (defines: {name: ast}, body ast of the R-group, R-group name)"""
    ast = parse(pattern)
    assert ast[0] == "seq"
    defines = {}
    body = None
    for x in ast[1]:
        if x[0] == "define":
            d = x[1]
            items = d[1] if d[0] == "seq" else [d]
            for g in items:
                assert g[0] == "grp" and g[1], g
                defines[g[1]] = g[2]
        elif x[0] == "flag":
            continue
        elif x[0] == "grp" and x[1] and x[1].startswith("R"):
            body = x
        else:
            raise Unsupported("unexpected top-level node {}".format(x[0]))
    if body is None:
        raise Unsupported("no R-group")
    return defines, body[2], body[1]


def presence(n) -> Set[FrozenSet[str]]:
    k = n[0]
    if k == "seq":
        acc = {frozenset()}
        for x in n[1]:
            px = presence(x)
            acc = {a | b for a in acc for b in px}
            if len(acc) > 5000:
                raise Unsupported("too many presence patterns")
        return acc
    if k == "alt":
        out = set()
        for x in n[1]:
            out |= presence(x)
        return out
    if k == "grp":
        inner = presence(n[2])
        if n[1]:
            return {p | {n[1]} for p in inner}
        return inner
    if k == "opt":
        return presence(n[1]) | {frozenset()}
    if k in ("star", "plus"):
        inner = presence(n[1])
        if any(p for p in inner):
            raise Unsupported("named group under * or +")
        return {frozenset()}
    return {frozenset()}      # chr, cls, esc, any, call, nla, nlb, flag


def find_group(n, name):
    k = n[0]
    if k in ("seq", "alt"):
        for x in n[1]:
            r = find_group(x, name)
            if r is not None:
                return r
        return None
    if k == "grp":
        if n[1] == name:
            return n[2]
        return find_group(n[2], name)
    if k in ("opt", "star", "plus", "nla", "nlb"):
        return find_group(n[1], name)
    return None


DIGITS = "0123456789"


def _cls_chars(items, neg) -> Optional[str]:
    if neg:
        return None
    out = []
    for it in items:
        if it[0] == "chr":
            out.append(it[1])
        elif it[0] == "range":
            a, b = it[1], it[2]
            if a[0] != "chr" or b[0] != "chr":
                return None
            out += [chr(c) for c in range(ord(a[1]), ord(b[1]) + 1)]
        elif it[0] == "esc" and it[1] == "d":
            out += list(DIGITS)
        else:
            return None
    return "".join(out)


def finite_language(n, defines, limit=5000) -> Optional[Set[str]]:
    """all strings of the sub-pattern if that set is finite and small; digits only for \\d
    (the repository's numeric groups are ASCII-digit languages; `\\d` under (?i)/Unicode also
    admits other decimal digits, which int() maps to the same values — noted as assumption)"""
    k = n[0]
    if k == "seq":
        acc = {""}
        for x in n[1]:
            lx = finite_language(x, defines, limit)
            if lx is None:
                return None
            acc = {a + b for a in acc for b in lx}
            if len(acc) > limit:
                return None
        return acc
    if k == "alt":
        out = set()
        for x in n[1]:
            lx = finite_language(x, defines, limit)
            if lx is None:
                return None
            out |= lx
        return out
    if k == "grp":
        return finite_language(n[2], defines, limit)
    if k == "opt":
        lx = finite_language(n[1], defines, limit)
        return None if lx is None else lx | {""}
    if k in ("star", "plus"):
        return None
    if k == "chr":
        return {n[1]}
    if k == "esc":
        return set(DIGITS) if n[1] == "d" else None
    if k == "cls":
        cs = _cls_chars(n[2], n[1])
        return None if cs is None else set(cs)
    if k == "call":
        return finite_language(defines[n[1]], defines, limit)
    if k in ("nla", "nlb", "flag"):
        return {""}
    return None


def int_ranges(values: Set[int]) -> List[Tuple[int, int]]:
    vs = sorted(values)
    out = []
    for v in vs:
        if out and v == out[-1][1] + 1:
            out[-1] = (out[-1][0], v)
        else:
            out.append((v, v))
    return out


def numeric_groups(pattern: str) -> Dict[str, Optional[List[Tuple[int, int]]]]:
    """named groups whose language is a set of digit strings -> ranges of the denoted ints
    (None = unbounded `\\d+`)"""
    defines, body, _ = split_pattern(pattern)
    names = set()
    for p in presence(body):
        names |= p
    out = {}
    for name in names:
        g = find_group(body, name)
        lang = finite_language(g, defines)
        if lang is not None and lang and all(s.isdigit() and s.isascii() for s in lang):
            out[name] = int_ranges({int(s) for s in lang})
        elif g == ("plus", ("esc", "d")) or (g[0] == "seq" and g[1] == [("plus", ("esc", "d"))]):
            out[name] = None
    return out
