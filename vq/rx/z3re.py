"""E2 — the repository's rule patterns as z3 regular expressions (regenerated from the live
pattern text on every run).

`plain(ast)`    : the language of a (sub-)pattern, look-arounds and \\b dropped (used for group
                  languages and for the "inert word" side, where dropping assertions only
                  enlarges the set of strings that contain a match).
`marked(pid)`   : one pure z3 Re over marked strings  before MK match MK after  (MK = U+0001),
                  translated continuation-passing right to left so that look-aheads, \\b and a
                  leading look-behind constrain the context exactly (DESIGN §2.2).
Anything outside the supported syntax raises Unsupported -> the obligation is inconclusive.
"""
from __future__ import annotations

import time
from typing import Any, Dict, List, Optional, Tuple

import z3

from .parse import parse
from .groups import split_pattern, Unsupported


def L(s):
    return z3.Re(z3.StringVal(s))


EPS = L("")
MK = "\u0001"
MKR = L(MK)
WS_CHARS = " \t\n\r\x0b\x0c\x1c\x1d\x1e\x1f\x85\xa0\u1680\u2000\u2001\u2002\u2003\u2004\u2005\u2006\u2007\u2008\u2009\u200a\u2028\u2029\u202f\u205f\u3000"
WS = z3.Union(*[L(c) for c in WS_CHARS])
DIG = z3.Range("0", "9")
# \w under the regex module (Unicode): ASCII word characters + Latin-1/Latin Extended letters;
# letters beyond U+024F are outside the model (stated bound of the encoding)
WORD = z3.Union(z3.Range("a", "z"), z3.Range("A", "Z"), DIG, L("_"), z3.Range("\u00c0", "\u00d6"),
                z3.Range("\u00d8", "\u00f6"), z3.Range("\u00f8", "\u024f"), L("\u00aa"), L("\u00b5"), L("\u00ba"))
ANY = z3.AllChar(z3.ReSort(z3.StringSort()))
SIG = z3.Star(ANY)
NOMK = z3.Star(z3.Intersect(ANY, z3.Complement(MKR)))
NONWORD = z3.Intersect(ANY, z3.Complement(z3.Union(WORD, MKR)))


def cat(xs):
    xs = [x for x in xs if x is not None]
    if not xs:
        return EPS
    return xs[0] if len(xs) == 1 else z3.Concat(*xs)


def uni(xs):
    xs = list(xs)
    return xs[0] if len(xs) == 1 else z3.Union(*xs)


def ch(c, ci):
    if ci:
        alts = {c, c.lower(), c.upper()}
        alts = {a for a in alts if len(a) == 1}
        if c in ("ß", "ẞ"):
            alts |= {"ß", "ẞ"}
        if len(alts) > 1:
            return uni([L(a) for a in sorted(alts)])
    return L(c)


def _or_eps(r):
    return EPS if r is None else r


class Plain:
    def __init__(self, defines: Dict[str, Any], ci: bool = True):
        self.defs = defines
        self.ci = ci
        self.groups: Dict[str, Any] = {}

    def cls(self, n):
        parts = []
        for it in n[2]:
            if it[0] == "range":
                a, b = it[1][1], it[2][1]
                parts.append(z3.Range(a, b))
                if self.ci and a.isalpha() and b.isalpha():
                    parts.append(z3.Range(a.swapcase(), b.swapcase()))
            elif it[0] == "esc":
                parts.append({"d": DIG, "s": WS, "w": WORD}[it[1]])
            else:
                parts.append(ch(it[1], self.ci))
        r = uni(parts)
        return z3.Intersect(z3.Intersect(ANY, z3.Complement(MKR)), z3.Complement(r)) if n[1] else r

    def tr(self, n):
        k = n[0]
        if k == "seq":
            return cat([self.tr(x) for x in n[1]])
        if k == "alt":
            return uni([_or_eps(self.tr(x)) for x in n[1]])
        if k == "grp":
            r = self.tr(n[2])
            if r is None:
                r = EPS
            if n[1]:
                self.groups[n[1]] = r
            return r
        if k in ("define", "flag", "nla", "nlb"):
            return None
        if k == "call":
            return self.tr(self.defs[n[1]])
        if k == "esc":
            if n[1] == "b":
                return None
            if n[1] in "dsw":
                return {"d": DIG, "s": WS, "w": WORD}[n[1]]
            raise Unsupported("escape \\" + n[1])
        if k == "chr":
            return ch(n[1], self.ci)
        if k == "any":
            return z3.Intersect(ANY, z3.Complement(z3.Union(L("\n"), MKR)))
        if k == "cls":
            return self.cls(n)
        if k == "opt":
            r = self.tr(n[1])
            return None if r is None else z3.Option(r)
        if k == "star":
            r = self.tr(n[1])
            return None if r is None else z3.Star(r)
        if k == "plus":
            r = self.tr(n[1])
            return None if r is None else z3.Plus(r)
        raise Unsupported(k)


class Marked(Plain):
    def ins(self, n):
        """regex for node n with an optional marker allowed at any atom boundary (look-ahead bodies
        may look past the end of the match)"""
        k = n[0]
        om = z3.Option(MKR)
        if k == "seq":
            return cat([om] + [z3.Concat(self.ins(x), om) for x in n[1]])
        if k == "alt":
            return uni([self.ins(x) for x in n[1]])
        if k == "grp":
            return self.ins(n[2])
        if k == "star":
            return z3.Star(z3.Concat(self.ins(n[1]), om))
        if k == "opt":
            return z3.Option(self.ins(n[1]))
        t = self.tr(n)
        return om if t is None else z3.Concat(om, t, om)

    def r(self, n, K):
        k = n[0]
        if k == "seq":
            out = K
            for x in reversed(n[1]):
                if x[0] in ("define", "flag"):
                    continue
                out = self.r(x, out)
            return out
        if k == "alt":
            return uni([self.r(x, K) for x in n[1]])
        if k == "grp":
            return self.r(n[2], K)
        if k == "opt":
            return z3.Union(K, self.r(n[1], K))
        if k == "nla":
            return z3.Intersect(K, z3.Complement(z3.Concat(self.ins(n[1]), SIG)))
        if k == "esc" and n[1] == "b":
            # every \b of the rule base follows a letter (checked by `b_follows_letter`): the next
            # unmarked character is not a word character, or the text ends
            return z3.Intersect(K, z3.Union(z3.Concat(z3.Option(MKR), NONWORD, SIG), MKR, z3.Concat(MKR, NONWORD, SIG)))
        if k == "nlb":
            raise Unsupported("look-behind not at the head of the pattern")
        if k in ("star", "plus"):
            inner = self.tr(n[1])
            if inner is None:
                return K
            # assertion-free body (checked): ordinary concatenation
            if _has_assertion(n[1]):
                raise Unsupported("assertion under * or +")
            return z3.Concat(z3.Star(inner) if k == "star" else z3.Plus(inner), K)
        t = self.tr(n)
        return K if t is None else z3.Concat(t, K)


def _has_assertion(n):
    k = n[0]
    if k in ("nla", "nlb") or (k == "esc" and n[1] == "b"):
        return True
    if k in ("seq", "alt"):
        return any(_has_assertion(x) for x in n[1])
    if k == "grp":
        return _has_assertion(n[2])
    if k in ("opt", "star", "plus"):
        return _has_assertion(n[1])
    return False


def last_chars(n, defines):
    """set of possible last atoms of a node (for the static \\b check): list of atom nodes or None"""
    k = n[0]
    if k == "seq":
        items = [x for x in n[1] if x[0] not in ("define", "flag", "nla", "nlb")]
        out = []
        for x in reversed(items):
            lc = last_chars(x, defines)
            if lc is None:
                return None
            out += lc[0]
            if not lc[1]:      # not nullable
                return (out, False)
        return (out, True)
    if k == "alt":
        out, nullable = [], False
        for x in n[1]:
            lc = last_chars(x, defines)
            if lc is None:
                return None
            out += lc[0]
            nullable = nullable or lc[1]
        return (out, nullable)
    if k == "grp":
        return last_chars(n[2], defines)
    if k in ("opt", "star"):
        lc = last_chars(n[1], defines)
        return None if lc is None else (lc[0], True)
    if k == "plus":
        return last_chars(n[1], defines)
    if k == "call":
        return last_chars(defines[n[1]], defines)
    if k in ("chr", "cls", "any"):
        return ([n], False)
    if k == "esc":
        if n[1] == "b":
            return ([], True)
        return ([n], False)
    return None


def b_follows_letter(body, defines) -> bool:
    """static check: every \\b occurs right after atoms that are word characters"""
    ok = [True]

    def is_word_atom(a):
        if a[0] == "chr":
            return a[1].isalnum() or a[1] == "_"
        if a[0] == "esc":
            return a[1] in "dw"
        if a[0] == "cls" and not a[1]:
            for it in a[2]:
                if it[0] == "chr" and not (it[1].isalnum() or it[1] == "_"):
                    return False
                if it[0] == "esc" and it[1] not in "dw":
                    return False
            return True
        return False

    def walk(n):
        k = n[0]
        if k == "seq":
            items = n[1]
            for i, x in enumerate(items):
                if x[0] == "esc" and x[1] == "b":
                    prev = ("seq", items[:i])
                    lc = last_chars(prev, defines)
                    if lc is None or lc[1] or not all(is_word_atom(a) for a in lc[0]):
                        ok[0] = False
                else:
                    walk(x)
        elif k == "alt":
            for x in n[1]:
                walk(x)
        elif k == "grp":
            walk(n[2])
        elif k in ("opt", "star", "plus", "nla", "nlb"):
            walk(n[1])
    walk(body)
    return ok[0]


class Pattern:
    """one rule pattern: plain language, group languages, marked language"""

    def __init__(self, pid: int, text: str):
        self.pid = pid
        self.text = text
        self.defines, self.body, self.rname = split_pattern(text)
        ast = parse(text)
        self.ci = any(x[0] == "flag" and x[1] == "i" for x in ast[1])
        p = Plain(self.defines, self.ci)
        self.plain = p.tr(self.body)
        self.groups = dict(p.groups)
        if not b_follows_letter(self.body, self.defines):
            raise Unsupported("\\b not preceded by a word character in pattern %d" % pid)
        self._marked = None

    @property
    def marked(self):
        if self._marked is None:
            m = Marked(self.defines, self.ci)
            seq = list(self.body[1]) if self.body[0] == "seq" else [self.body]
            lb = NOMK
            if seq and seq[0][0] == "nlb":
                inner = m.tr(seq[0][1])
                lb = z3.Intersect(NOMK, z3.Complement(z3.Concat(SIG, inner)))
                seq = seq[1:]
            tail = z3.Concat(MKR, NOMK)
            self._marked = z3.Concat(lb, MKR, m.r(("seq", seq), tail))
        return self._marked


_X = z3.String("x")


def query(constraints, timeout_ms=60000, want_model=True):
    """-> (verdict 'sat'|'unsat'|'unknown', seconds, model string of x or None)"""
    s = z3.Solver()
    s.set("timeout", timeout_ms)
    s.add(*constraints)
    t = time.time()
    r = str(s.check())
    dt = time.time() - t
    ms = None
    if r == "sat" and want_model:
        try:
            ms = s.model().eval(_X, model_completion=True).as_string()
            ms = z3_unescape(ms)
        except Exception:
            ms = None
    return r, dt, ms


def z3_unescape(s: str) -> str:
    """z3 prints non-ASCII / control characters as \\u{..}"""
    import re as _re
    return _re.sub(r"\\u\{([0-9a-fA-F]+)\}", lambda m: chr(int(m.group(1), 16)), s)


def X():
    return _X


def load_patterns():
    import ctparse  # noqa
    import ctparse.ctparse  # noqa
    from ctparse.rule import _regex
    out, errors = {}, {}
    for pid, rr in sorted(_regex.items()):
        try:
            out[pid] = Pattern(pid, rr.pattern)
        except (Unsupported, SyntaxError, KeyError, AssertionError) as e:
            errors[pid] = "%s: %s" % (type(e).__name__, e)
    return out, errors
