"""Builds the E1 jobs of the WF-BASE / WF-STEP / FRAME family from vq.wfgen."""
import json

from .core import fn_id
from .e1 import Job

ARITH = {"ruleDateInterval", "ruleTimeDuration", "ruleDurationInterval", "ruleIntervalDuration",
         "ruleIntervalConjDuration", "rulePODInterval"}
# dateutil.rrule cannot be executed symbolically (CrossHair modelling TypeError in
# datetime.combine; DESIGN §3): the rule is outside every claim
OUT_OF_REACH = {"ruleDOWDOM"}
TS_RULES = {"ruleLatentDOM", "ruleLatentDOY", "ruleLatentDOW", "ruleLatentPOD", "ruleAtDOW", "ruleNextDOW", "ruleDOWNextWeek", "ruleToday", "ruleNow",
            "ruleTomorrow", "ruleAfterTomorrow", "ruleYesterday", "ruleBeforeYesterday", "ruleEOM", "ruleEOY", "ruleYear", "ruleHHMMmilitary"}


QUICK_PODS = ["morning", "afternoon", "night", "last", "veryearlymorning", "noon"]
THOROUGH_PODS = ["morning", "forenoon", "afternoon", "noon", "evening", "night", "first", "last", "earlymorning", "lateevening", "veryearlymorning", "verylatenight",
                 "earlyearlymorning", "verylatelatenight"]
MULTI_PODS = ["morning", "night", "veryearlymorning"]
CLAUSES = {"C02": ["exc", "wf", "closure", "span"], "C01": ["exc", "wf"], "C15": ["frame"], "C12": ["frame"]}
PER_RULE_QUICK = {"C02": 4, "C01": 2, "C15": 2, "C12": 1}


def wf_jobs(prop, tier, rules=None, cell=(2024, 2), lift=True, timeout=None, extra=None):
    from . import wfgen
    from .harness.common import body, PODS
    b = wfgen.build(extra=extra)
    qp = sorted(PODS.index(x) for x in QUICK_PODS if x in PODS)
    mp = sorted(PODS.index(x) for x in MULTI_PODS if x in PODS)
    tp = sorted({PODS.index(x) for x in THOROUGH_PODS if x in PODS})
    per_rule = {}
    for key, ob in sorted(b["obligations"].items()):
        per_rule.setdefault(ob["rule"], []).append(key)
    keep = set()
    cap = PER_RULE_QUICK.get(prop, 4) if tier == "quick" else 12      # thorough: up to 12 ranked tuples per rule (all tuples: several hours)
    for r, keys in per_rule.items():
        if r == "ruleTimeDuration" and tier == "quick":
            keys = [k for k in keys if "POD" not in k][:2] or keys[:2]     # exact end-date contract: C08
        if len(keys) <= cap:
            keep |= set(keys)
        else:
            # deterministic choice: tuples on which the rule actually produces something first,
            # simpler (more reachable) argument shapes before richer ones
            def rank(k):
                ob = b["obligations"][k]
                produces = any(a != "N" for a in ob["allowed"])
                nfields = sum(str(a[1]).count(",") + 1 for a in ob["args"] if a[0] == "art")
                both = sum(1 for a in ob["args"] if a[0] == "art" and str(a[1]).startswith("I:") and "N" not in str(a[1]).replace("I:", "").split("|"))
                return (not produces, -both, nfields, k)
            keep |= set(sorted(keys, key=rank)[:cap])
    jobs = []
    for key, ob in sorted(b["obligations"].items()):
        name = ob["rule"]
        if rules is not None and name not in rules:
            continue
        if name in OUT_OF_REACH or key not in keep:
            continue
        spec = {"rule": name, "args": ob["args"], "allowed": ob["allowed"], "clauses": CLAUSES.get(prop),
                "text_groups": ob.get("text_groups", [])}
        if tier == "quick":
            spec["textcap"] = 6
            spec["prescap"] = 48
        years = None
        if name in ARITH:
            years = [2024]
            spec["years"] = years
            spec["ym"] = [[2024, 2]]
            spec["maxdur"] = 12 if tier == "quick" else 120
        if name not in ARITH and any(a[0] == "art" and str(a[1]).startswith("I:") and "year" in str(a[1]) for a in ob["args"]):
            # dated interval ends: same year-month cell as for the date-arithmetic rules (the
            # ordering clause of WF on two symbolic dates is what is expensive)
            spec["ym"] = [[2024, 2]]
        npod = sum(str(a[1]).count("POD") for a in ob["args"])
        if npod >= 2:
            spec["pods"] = mp
        elif npod and tier == "quick":
            spec["pods"] = qp
        elif npod and prop != "C19":
            spec["pods"] = tp          # thorough: 14 table keys; every key of the table: POD-CLOSED (C19), C06 and C04
        variants = [(spec, "")]
        if name in TS_RULES and prop in ("C01", "C02") and not (name == "ruleLatentDOY" and tier == "quick"):
            # rules that read the reference time: more year-month cells (after a leap day, year end)
            variants = [(dict(spec, _cell=c), "/ts%d-%02d" % c) for c in ([(2024, 2), (2024, 3)] if tier == "quick" else [(2024, 2), (2024, 3), (2023, 12)])]
        if name == "ruleTimeDuration" and prop in ("C15", "C12"):
            spec["maxdur"] = 3          # the frame clause does not depend on the amount
        elif name == "ruleTimeDuration":
            variants = []
            for ui in range(6):
                sp = dict(spec)
                sp["units"] = [ui]
                if ui == 5:      # MONTHS: year roll-over on a symbolic year is the expensive part
                    sp["maxdur"] = 13 if tier == "quick" else 24
                variants.append((sp, "/unit%d" % ui))
        for spec_v, suffix in variants:
            cell_v = spec_v.pop("_cell", None) or cell
            env = {"VQ_PROP": prop, "VQ_SPEC": json.dumps(spec_v), "VQ_Y": str(cell_v[0]), "VQ_M": str(cell_v[1])}
            bounds = ("arguments: every field present in the shape symbolic over the invariant WF (year 1880..2109{}), parts of day by index over the live table, "
                      "regex groups by presence pattern and numeric range; ts: every time of day on the first and on the last day of {}-{:02d}{}"
                      .format("" if not spec.get("ym") else "; fully dated arguments in year-month cells {}, duration amount <= {}".format(spec["ym"], spec.get("maxdur", "n/a")), cell[0], cell[1],
                              "; parts of day restricted to {} table keys".format(len(spec["pods"])) if "pods" in spec else ""))
            jobs.append(Job("{}.WF[{}]{}".format(prop, key, suffix), "vq.harness.h_wf", "ob_step", env=env,
                            timeout=timeout or (600 if tier == "quick" else 1500), bounds=bounds + "; clauses " + ",".join(spec["clauses"] or ["all"]),
                            functions=[fn_id(body(name)), "ctparse.rule.rule.<wrapper> (real span update)"],
                            stubs=["regex matches are group stubs (presence pattern x numeric ranges derived from the live pattern AST)"],
                            lift="lift_step" if lift else None, site=name))
    # pseudo rules on every reachable shape: accessors (WF-ACC) and latent post-processing (LATENT-WF)
    if rules is None or "@acc" in rules or "@latent" in rules:
        from .harness.common import PL, TY
        shapes = [k for k in b["reach"] if k != "D"]
        def pick(pseudo):
            if tier != "quick":
                return shapes
            if prop != "C02":
                return shapes[:: max(1, len(shapes) // 8)]
            tshapes = [k for k in shapes if k.startswith("T:")]
            ishapes = [k for k in shapes if k.startswith("I:")]
            if pseudo == "@latent":
                clock = [k for k in ishapes if "year" not in k and "hour" in k]
                return tshapes + clock + [k for k in ishapes if k not in clock][::6]
            return tshapes + ishapes[::4]
        for pseudo, fnlist, allowed in (("@acc", [fn_id(TY.Time.start.fget), fn_id(TY.Time.end.fget), fn_id(TY.Time.dt.fget), fn_id(TY.Interval.start.fget), fn_id(TY.Interval.end.fget)], ["N"]),
                                        ("@latent", [fn_id(PL.apply_postprocessing_rules), fn_id(PL._latent_tod), fn_id(PL._latent_time_interval)],
                                         ["N", "T:year,month,day,hour,minute", "I:T:year,month,day,hour,minute|T:year,month,day,hour,minute"])):
            if rules is not None and pseudo not in rules:
                continue
            if pseudo == "@latent" and prop not in ("C02", "C01"):
                continue
            if prop in ("C15", "C12") and pseudo == "@acc":
                continue
            for k in pick(pseudo):
                spec = {"rule": pseudo, "args": [["art", k]], "allowed": allowed, "clauses": [c for c in (CLAUSES.get(prop) or ["exc", "wf", "span"]) if c != "closure"] + (["closure"] if prop == "C02" else []),
                        "text_groups": []}
                npod = k.count("POD")
                if npod >= 2:
                    spec["pods"] = mp
                elif npod:
                    spec["pods"] = qp
                if k.count("year"):
                    spec["ym"] = [[2024, 2], [2023, 2]]
                env = {"VQ_PROP": prop, "VQ_SPEC": json.dumps(spec), "VQ_Y": str(cell[0]), "VQ_M": str(cell[1])}
                jobs.append(Job("{}.WF[{}({})]".format(prop, pseudo, k), "vq.harness.h_wf", "ob_step", env=env, timeout=timeout or (600 if tier == "quick" else 1500),
                                bounds="every value of shape {} inside WF{}; ts: every instant of {}-{:02d}".format(k, "; dated fields in cells %s" % spec["ym"] if "ym" in spec else "", cell[0], cell[1]),
                                functions=fnlist, lift="lift_step" if (lift and pseudo == "@latent") else None, site=pseudo))
    return jobs, b


def run_wf(prop, tier, rules=None, cell=(2024, 2), lift=True, timeout=None, only=None):
    """runs the family with the closure loop: an output shape that concrete sampling missed is
    reported by the solver (`closure:` failures), added, and the affected obligations re-run"""
    from .e1 import run_jobs
    from .core import INCONCLUSIVE, VIOLATED
    extra = {}
    done = {}
    info = {}
    for rnd in range(5):
        jobs, b = wf_jobs(prop, tier, rules, cell, lift, timeout, extra)
        info = {"reach": b["reach"], "fixpoint_iterations": b["iterations"], "closure_rounds": rnd + 1}
        todo = [j for j in jobs if (not only or only in j.name) and (j.name, j.env["VQ_SPEC"]) not in done]
        if not todo:
            break
        grew = False
        for j, r in zip(todo, run_jobs(todo)):
            done[(j.name, j.env["VQ_SPEC"])] = r
            why = (r.replay or {}).get("why", "") if r.replay else ""
            if why.startswith("closure:"):
                shape = why.split("result shape ")[1].split(" outside")[0]
                key = j.name.split(".WF[", 1)[1].rsplit("]", 1)[0]
                extra.setdefault(key, [])
                if shape not in extra[key]:
                    extra[key].append(shape)
                    grew = True
        if not grew:
            break
    # keep the last verdict per obligation name (the one with the final closure)
    final = {}
    jobs, b = wf_jobs(prop, tier, rules, cell, lift, timeout, extra)
    for j in jobs:
        k = (j.name, j.env["VQ_SPEC"])
        if k in done:
            r = done[k]
            why = (r.replay or {}).get("why", "") if r.replay else ""
            if why.startswith("closure:"):
                r.verdict = INCONCLUSIVE
                r.detail = "shape closure did not stabilise: " + why
            final[j.name] = r
    info["closure_additions"] = extra
    return list(final.values()), info
