"""E2 obligations: token lemmas about the real rule patterns, decided by z3's regular-expression
theory on translations regenerated from the live pattern texts (vq.rx.z3re)."""
from __future__ import annotations

import time
from typing import Any, Dict, List, Optional, Tuple

import z3

from .core import Result, HOLDS, VIOLATED, INCONCLUSIVE
from .rx import z3re as R
from .rx.z3re import L, MK, MKR, NOMK, SIG, WS, DIG, WORD, ANY, X, query, uni, cat

_CACHE: Dict[str, Any] = {}


def patterns():
    if "p" not in _CACHE:
        _CACHE["p"] = R.load_patterns()
    return _CACHE["p"]


def real_regex():
    from ctparse.rule import _regex
    return _regex


def corpus_texts(limit=None):
    import json, os
    import ctparse
    from ctparse.time.corpus import corpus
    from ctparse.time.auto_corpus import corpus as auto_corpus
    texts = []
    for target, ts, tests in list(corpus) + list(auto_corpus):
        texts += list(tests)
    p = os.path.join(os.path.dirname(os.path.dirname(ctparse.__file__)), "datasets", "timeparse_corpus.json")
    try:
        with open(p, encoding="utf-8") as fd:
            texts += [e["text"] for e in json.load(fd)]
    except Exception:
        pass
    seen, out = set(), []
    for t in texts:
        if t not in seen:
            seen.add(t)
            out.append(t)
    return out if limit is None else out[:: max(1, len(out) // limit)]


def validate(limit=400) -> Result:
    """translator validation (not the deciding step): every match the real engine produces on the
    corpus texts must be a member of the translated marked language with its real context."""
    import sys
    import ctparse.ctparse  # noqa
    C = sys.modules["ctparse.ctparse"]
    pats, errors = patterns()
    t0 = time.time()
    n = bad = 0
    badlist = []
    x = X()
    for text in corpus_texts(limit):
        txt = C._preprocess_string(text)
        if MK in txt or len(txt) > 60:
            continue
        for m in C._match_regex(txt, real_regex()):
            if m.id not in pats:
                continue
            s = txt[:m.mstart] + MK + txt[m.mstart:m.mend] + MK + txt[m.mend:]
            r, dt, _ = query([x == z3.StringVal(s), z3.InRe(x, pats[m.id].marked)], 20000, False)
            n += 1
            if r != "sat":
                bad += 1
                badlist.append((m.id, s.replace(MK, "|"), r))
    res = Result("E2.translator-validation", "z3", HOLDS if bad == 0 and not errors else INCONCLUSIVE, seconds=time.time() - t0,
                 bounds="{} real matches of the compiled patterns on corpus texts, each with its real left/right context".format(n),
                 detail="disagreements: {} {}; untranslatable patterns: {}".format(bad, badlist[:3], errors), queries=n,
                 functions=["ctparse.rule._regex (41 compiled patterns, pattern texts re-read from the live module)"])
    return res


def engine_has_match(pid, before, mid, after) -> bool:
    """does the real engine report a match of pattern pid exactly at this span?"""
    rr = real_regex()[pid]
    txt = before + mid + after
    key = "R%d" % pid
    return any(m.span(key) == (len(before), len(before) + len(mid)) for m in rr.finditer(txt, overlapped=True))


def split_marked(s: str):
    parts = s.split(MK)
    if len(parts) != 3:
        return None
    return parts


def lemma(name, pid, constraint_re, what, bounds, pats=None, replay=None, timeout_ms=60000) -> Result:
    """universal lemma "no marked string of pattern pid lies in constraint_re": unsat -> holds;
    sat -> the model string is replayed on the real engine."""
    pats = pats or patterns()[0]
    if pid not in pats:
        return Result(name, "z3", INCONCLUSIVE, detail="pattern %d not translatable" % pid, bounds=bounds)
    x = X()
    r, dt, ms = query([z3.InRe(x, z3.Intersect(pats[pid].marked, constraint_re))], timeout_ms)
    res = Result(name, "z3", INCONCLUSIVE, seconds=dt, bounds=bounds, functions=["pattern %d: %s" % (pid, pats[pid].text[-80:])])
    if r == "unsat":
        res.verdict, res.detail = HOLDS, "unsat: " + what
        return res
    if r == "sat":
        parts = split_marked(ms) if ms else None
        res.cex = {"string": ms.replace(MK, "|") if ms else None}
        if parts and engine_has_match(pid, *parts):
            res.verdict = VIOLATED
            res.replay = {"engine": "reproduced", "before": parts[0], "match": parts[1], "after": parts[2]}
            res.detail = "real engine reports the match %r in %r" % (parts[1], "".join(parts))
            if replay:
                extra = replay(parts)
                res.replay.update(extra)
                if not extra.get("api_reproduced", True):
                    res.verdict = INCONCLUSIVE
                    res.detail = "token-level counterexample %r not visible through the API" % ("".join(parts),)
        else:
            res.detail = "model %r not reproduced by the real engine (shorter alternative of a greedy match, or translator slack)" % (ms,)
        return res
    res.detail = "z3 answered " + r
    return res
