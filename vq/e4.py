"""E4 — shadow execution of the naive-Bayes estimator over z3 terms.

The real functions of ctparse/nb_estimator.py are executed with counts replaced by objects that
overload arithmetic onto z3 Real terms and with the module attributes `log` / `exp` replaced by
uninterpreted functions.  The estimator branches only on labels and dictionary keys, except for
one `max` in `_log_sum_exp`, which is explored both ways (decision vector, path condition
recorded).  The result is one z3 term per output, compared with the textbook formula by one
query per shape.  Bounds = the shapes (vocabulary size, number of aggregate documents); counts
are arbitrary non-negative reals.
"""
from __future__ import annotations

import itertools
import time
from typing import Any, Callable, Dict, List, Tuple

import z3

from .core import Result, HOLDS, VIOLATED, INCONCLUSIVE, fn_id

LOG = z3.Function("log", z3.RealSort(), z3.RealSort())
EXP = z3.Function("exp", z3.RealSort(), z3.RealSort())


class Fork(Exception):
    pass


class Ctx:
    """decision oracle for comparisons between symbolic numbers"""
    decisions: List[bool] = []
    pos = 0
    path: List[Any] = []
    log_args: List[Any] = []
    exp_args: List[Any] = []

    @classmethod
    def decide(cls, cond):
        if cls.pos >= len(cls.decisions):
            cls.decisions.append(True)
        d = cls.decisions[cls.pos]
        cls.pos += 1
        cls.path.append(cond if d else z3.Not(cond))
        return d


class S:
    """number backed by a z3 arithmetic term"""
    __slots__ = ("t",)

    def __init__(self, t):
        self.t = t if z3.is_expr(t) else z3.RealVal(t)

    @staticmethod
    def of(x):
        return x if isinstance(x, S) else S(x)

    def __add__(self, o):
        return S(self.t + S.of(o).t)
    __radd__ = __add__

    def __sub__(self, o):
        return S(self.t - S.of(o).t)

    def __rsub__(self, o):
        return S(S.of(o).t - self.t)

    def __mul__(self, o):
        return S(self.t * S.of(o).t)
    __rmul__ = __mul__

    def __truediv__(self, o):
        return S(self.t / S.of(o).t)

    def __rtruediv__(self, o):
        return S(S.of(o).t / self.t)

    def __neg__(self):
        return S(-self.t)

    def __gt__(self, o):
        return Ctx.decide(self.t > S.of(o).t)

    def __lt__(self, o):
        return Ctx.decide(self.t < S.of(o).t)

    def __ge__(self, o):
        return Ctx.decide(self.t >= S.of(o).t)

    def __le__(self, o):
        return Ctx.decide(self.t <= S.of(o).t)


def slog(x):
    x = S.of(x)
    Ctx.log_args.append(x.t)
    return S(LOG(x.t))


def sexp(x):
    x = S.of(x)
    Ctx.exp_args.append(x.t)
    return S(EXP(x.t))


def explore(fn: Callable[[], Any], maxpaths=16):
    """run fn under every decision vector; -> [(path condition, result, log args, exp args)]"""
    out = []
    stack = [[]]
    while stack:
        dec = stack.pop()
        Ctx.decisions, Ctx.pos, Ctx.path, Ctx.log_args, Ctx.exp_args = list(dec), 0, [], [], []
        r = fn()
        out.append((list(Ctx.path), r, list(Ctx.log_args), list(Ctx.exp_args)))
        taken = Ctx.decisions
        for i in range(len(dec), len(taken)):
            alt = taken[:i] + [not taken[i]]
            stack.append(alt)
        if len(out) > maxpaths:
            raise RuntimeError("too many paths")
    return out


def check(name, assumptions, negated_goal, bounds, functions, timeout_ms=60000) -> Result:
    """unsat(assumptions and negated goal) -> holds; sat -> counterexample model"""
    s = z3.Solver()
    s.set("timeout", timeout_ms)
    s.add(*assumptions)
    s.add(negated_goal)
    t = time.time()
    r = str(s.check())
    dt = time.time() - t
    res = Result(name, "z3", INCONCLUSIVE, seconds=dt, bounds=bounds, functions=functions)
    if r == "unsat":
        res.verdict = HOLDS
        res.detail = "unsat (negated property)"
    elif r == "sat":
        m = s.model()
        res.cex = {"model": {str(d): str(m[d]) for d in m.decls() if d.arity() == 0}}
        res.verdict = VIOLATED          # caller replays before trusting
        res.detail = "sat: " + str(res.cex["model"])[:300]
    else:
        res.detail = "z3 answered " + r
    return res


def install(NB):
    NB.log = slog
    NB.exp = sexp


def uninstall(NB):
    from math import log, exp
    NB.log = log
    NB.exp = exp


def sym_counts(tag, V, as_int=True):
    vs = [z3.Int("%s_%d" % (tag, i)) for i in range(V)]
    return {i: S(z3.ToReal(v)) for i, v in enumerate(vs)}, [v >= 0 for v in vs], vs
