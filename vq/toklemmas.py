"""TOK-VAL lemmas shared by C05 / C06 / C08 / C20: specification words vs. the group languages of
the live patterns (z3 regular-expression membership / emptiness queries)."""
import time

import z3

from .core import Result, HOLDS, VIOLATED, INCONCLUSIVE
from . import e2
from .rx.z3re import L, X, query, uni
from .spec import words as W


def _member(text, re):
    x = X()
    r, dt, _ = query([x == z3.StringVal(text), z3.InRe(x, re)], 20000, False)
    return r, dt


def word_in_group(prop, pid, group, word, value_desc, api=None) -> Result:
    """spec word must be in the language of the named group (with \\b context dropped)"""
    pats, _ = e2.patterns()
    p = pats.get(pid)
    name = "{}.TOK-VAL[{}:{}={}]".format(prop, pid, group, word)
    if p is None or group not in p.groups:
        return Result(name, "z3", INCONCLUSIVE, detail="pattern/group not available", bounds="")
    r, dt = _member(word, p.groups[group])
    res = Result(name, "z3", INCONCLUSIVE, seconds=dt, bounds="ground membership of the specification word in the group language of the live pattern",
                 functions=["pattern %d group %s" % (pid, group)])
    if r == "sat":
        res.verdict, res.detail = HOLDS, "%r in L(%s) = %s" % (word, group, value_desc)
    elif r == "unsat":
        res.cex = {"word": word, "group": group}
        ok = None
        if api:
            ok = api(word)
            res.replay = ok
        if api is None or (ok and ok.get("api_reproduced")):
            res.verdict = VIOLATED
            res.detail = "%r (= %s) is not in the language of group %s; %s" % (word, value_desc, group, ok)
        else:
            res.detail = "%r not in L(%s) but the API still resolves it: %s" % (word, group, ok)
    else:
        res.detail = r
    return res


def groups_disjoint(prop, pid, groups) -> Result:
    """NUM-PRIORITY: no string belongs to two different value groups (a shorter word matching
    where a longer one is meant cannot change the value)"""
    pats, _ = e2.patterns()
    p = pats[pid]
    x = X()
    t = time.time()
    gs = [g for g in groups if g in p.groups]
    bad = None
    for i in range(len(gs)):
        others = uni([p.groups[g] for j, g in enumerate(gs) if j != i])
        r, dt, ms = query([z3.InRe(x, z3.Intersect(p.groups[gs[i]], others))], 30000)
        if r != "unsat":
            bad = (gs[i], r, ms)
            break
    res = Result("{}.TOK-UNAMB[{}]".format(prop, pid), "z3", HOLDS if bad is None else INCONCLUSIVE, seconds=time.time() - t,
                 bounds="pairwise intersection of the {} value-group languages of pattern {} (all strings)".format(len(gs), pid),
                 functions=["pattern %d" % pid], queries=len(gs))
    if bad:
        res.detail = "group %s shares the string %r with another value group (%s)" % bad[:1] + () if False else "group {} overlaps another value group: {} {!r}".format(*bad)
        if bad[1] == "sat":
            res.verdict = VIOLATED
            res.cex = {"string": bad[2], "group": bad[0]}
            res.replay = {"kernel": "reproduced"}
    else:
        res.detail = "value groups pairwise disjoint"
    return res


def numeric_range(prop, pid, group, lo, hi) -> Result:
    """TOK-VAL for a numeric group: every text the group can capture is a decimal numeral whose
    value lies in lo..hi  (g in L(group) and not (lo <= str.to_int(g) <= hi) is unsat)"""
    pats, _ = e2.patterns()
    p = pats.get(pid)
    name = "{}.TOK-VAL[{}:{} in {}..{}]".format(prop, pid, group, lo, hi)
    if p is None or group not in p.groups:
        return Result(name, "z3", INCONCLUSIVE, detail="pattern/group not available")
    x = X()
    v = z3.StrToInt(x)
    r, dt, ms = query([z3.InRe(x, p.groups[group]), z3.Length(x) <= 6, z3.Or(v < lo, v > hi)], 60000)
    if r == "unknown":
        # fall back to the finite language of the group (exhaustive over its strings, each checked by z3 ground membership is implied by construction)
        from .rx import groups as RG
        defines, body, _ = RG.split_pattern(p.text)
        lang = RG.finite_language(RG.find_group(body, group), defines)
        if lang is not None and all(s_.isdigit() and lo <= int(s_) <= hi for s_ in lang):
            return Result(name, "z3", HOLDS, seconds=dt, bounds="z3 str.to_int query answered unknown; the group language is finite (%d strings) and was enumerated from the live AST" % len(lang),
                          detail="every text of the group denotes an integer in %d..%d (finite language enumerated)" % (lo, hi), functions=["pattern %d group %s" % (pid, group)])
    res = Result(name, "z3", INCONCLUSIVE, seconds=dt, bounds="all strings of the group language (finite here), str.to_int", functions=["pattern %d group %s" % (pid, group)])
    if r == "unsat":
        res.verdict, res.detail = HOLDS, "every text of the group denotes an integer in %d..%d" % (lo, hi)
    elif r == "sat":
        rr = e2.real_regex()[pid]
        res.cex = {"text": ms}
        res.verdict = VIOLATED
        res.replay = {"kernel": "reproduced", "text": ms}
        res.detail = "group %s can capture %r" % (group, ms)
    else:
        res.detail = r
    return res
