"""E1 — CrossHair obligations on the real functions.

Each job is one `crosshair check` OS process over one harness function (plus its
automatically generated reachability twin).  The harness function returns a bool and
carries a PEP-316 contract `pre: <bounds>` / `post: _`; its body calls the real code of
/repo.  Verdicts:

  Confirmed over all paths  -> holds (for every value admitted by the precondition)
  counterexample            -> replayed concretely (kernel, then the harness's lift_*
                               function against the public API when it has one)
  anything else             -> inconclusive
"""
from __future__ import annotations

import ast
import json
import os
import re
import shutil
import subprocess
import sys
import tempfile
import time
from concurrent.futures import ThreadPoolExecutor
from dataclasses import dataclass, field
from typing import Any, Dict, List, Optional, Tuple

from .core import Result, HOLDS, VIOLATED, INCONCLUSIVE, VERIF, REPO

PY = os.path.join(VERIF, ".venv", "bin", "python")
CROSSHAIR = os.path.join(VERIF, ".venv", "bin", "crosshair")
NPROC = int(os.environ.get("VQ_NPROC", "16"))


@dataclass
class Job:
    name: str                 # obligation id, unique within the run
    module: str               # harness module, e.g. "vq.harness.h_rel"
    func: str                 # harness function, e.g. "ob_tomorrow"
    env: Dict[str, str] = field(default_factory=dict)   # case-split cell (concrete constants)
    timeout: int = 60         # --per_condition_timeout (CPU seconds)
    bounds: str = ""
    functions: List[str] = field(default_factory=list)  # real functions encoded
    stubs: List[str] = field(default_factory=list)
    twin: bool = True
    site: str = ""
    lift: Optional[str] = None   # name of a lift function in the module (API-level replay)
    path_timeout: Optional[float] = None


_SRC_CACHE: Dict[str, Tuple[str, Dict[str, Tuple[int, int]]]] = {}


def _module_file(module: str) -> str:
    return os.path.join(VERIF, *module.split(".")) + ".py"


def _func_ranges(src: str) -> Dict[str, Tuple[int, int]]:
    tree = ast.parse(src)
    out = {}
    for node in tree.body:
        if isinstance(node, ast.FunctionDef):
            out[node.name] = (node.lineno, node.end_lineno)
    return out


def _prepare(module: str, tmpdir: str) -> Tuple[str, Dict[str, Tuple[int, int]]]:
    """Copy the harness module into tmpdir with a twin appended for every ob_* function.

    The twin has the same precondition and body and the postcondition `not _`: CrossHair
    must *refute* it (exhibit admitted values on which the body runs to its end and the
    property's expression is true); otherwise the obligation is vacuous.
    """
    if module in _SRC_CACHE:
        return _SRC_CACHE[module]
    path = _module_file(module)
    with open(path) as fd:
        src = fd.read()
    lines = src.split("\n")
    ranges = _func_ranges(src)
    extra = []
    for name, (a, b) in ranges.items():
        if not name.startswith("ob_"):
            continue
        body = lines[a - 1:b]
        tw = "\n".join(body)
        tw = re.sub(r"^def ob_", "def tw_", tw, count=1)
        if not re.search(r"^\s*post: _\s*$", tw, flags=re.M):
            continue
        tw = re.sub(r"^(\s*)post: _\s*$", r"\1post: not _", tw, flags=re.M)
        extra.append(tw)
    out = src + "\n\n# ---- generated reachability twins ----\n" + "\n\n".join(extra) + "\n"
    dst = os.path.join(tmpdir, module.replace(".", "_") + ".py")
    with open(dst, "w") as fd:
        fd.write(out)
    res = (dst, _func_ranges(out))
    _SRC_CACHE[module] = res
    return res


_MSG = re.compile(r"^(?P<file>[^:]+):(?P<line>\d+): (?P<kind>error|info|warning): (?P<msg>.*)$")


def _parse_call(msg: str, func: str) -> Optional[List[Any]]:
    """Extract positional/keyword literal arguments from '... when calling f(1, None, x=2) ...'."""
    i = msg.find("when calling " + func + "(")
    if i < 0:
        return None
    s = msg[i + len("when calling "):]
    # find the matching close paren
    depth = 0
    end = None
    for k, ch in enumerate(s):
        if ch == "(":
            depth += 1
        elif ch == ")":
            depth -= 1
            if depth == 0:
                end = k + 1
                break
    if end is None:
        return None
    try:
        call = ast.parse(s[:end], mode="eval").body
        args = [ast.literal_eval(a) for a in call.args]
        kwargs = {k.arg: ast.literal_eval(k.value) for k in call.keywords}
        return [args, kwargs]
    except Exception:
        return None


def _env(job_env: Dict[str, str]) -> Dict[str, str]:
    env = dict(os.environ)
    repo = os.environ.get("VQ_REPO")
    env["PYTHONPATH"] = (repo + os.pathsep if repo else "") + VERIF + os.pathsep + env.get("PYTHONPATH", "")
    env["PYTHONWARNINGS"] = "ignore"
    env["PYTHONHASHSEED"] = "0"
    env.update(job_env)
    return env


def kernel_replay(module: str, func: str, call: List[Any], env: Dict[str, str],
                  lift: Optional[str]) -> Dict[str, Any]:
    """Re-run the harness body concretely (plain CPython, no CrossHair) on the unmodified
    tree with the solver's values; optionally the API-level lift."""
    payload = json.dumps({"module": module, "func": func, "call": call, "lift": lift})
    try:
        p = subprocess.run([PY, "-m", "vq.replay_kernel"], input=payload, text=True,
                           capture_output=True, env=_env(env), cwd=VERIF, timeout=300)
    except subprocess.TimeoutExpired:
        return {"kernel": "timeout"}
    try:
        return json.loads(p.stdout.strip().split("\n")[-1])
    except Exception:
        return {"kernel": "error", "stdout": p.stdout[-500:], "stderr": p.stderr[-800:]}


def run_job(job: Job, tmpdir: str) -> Result:
    t0 = time.time()
    path, ranges = _prepare(job.module, tmpdir)
    if job.func not in ranges:
        return Result(job.name, "crosshair", INCONCLUSIVE, detail="no such harness function " + job.func,
                      bounds=job.bounds, functions=job.functions, site=job.site)
    targets = ["{}:{}".format(path, ranges[job.func][0])]
    twname = "tw_" + job.func[3:]
    has_twin = job.twin and twname in ranges
    if has_twin:
        targets.append("{}:{}".format(path, ranges[twname][0]))
    cmd = [CROSSHAIR, "check", "--report_all", "--per_condition_timeout", str(job.timeout)]
    if job.path_timeout:
        cmd += ["--per_path_timeout", str(job.path_timeout)]
    cmd += targets
    wall = job.timeout * (2 if has_twin else 1) * 2 + 90
    try:
        p = subprocess.run(cmd, capture_output=True, text=True, env=_env(job.env), cwd=tmpdir,
                           timeout=wall)
        out, err = p.stdout, p.stderr
    except subprocess.TimeoutExpired as e:
        out = (e.stdout or b"").decode() if isinstance(e.stdout, bytes) else (e.stdout or "")
        err = "wall-clock timeout after {}s".format(wall)
    secs = time.time() - t0
    ob_msg = tw_msg = None
    for line in out.split("\n"):
        m = _MSG.match(line.strip())
        if not m:
            continue
        ln = int(m.group("line"))
        for fname in (job.func, twname):
            if fname in ranges and ranges[fname][0] <= ln <= ranges[fname][1]:
                if fname == job.func and ob_msg is None:
                    ob_msg = (m.group("kind"), m.group("msg"))
                elif fname == twname and tw_msg is None:
                    tw_msg = (m.group("kind"), m.group("msg"))
    res = Result(job.name, "crosshair", INCONCLUSIVE, seconds=secs, bounds=job.bounds,
                 functions=job.functions, site=job.site, stubs=job.stubs,
                 queries=2 if has_twin else 1)
    if has_twin:
        if tw_msg and tw_msg[0] == "error" and "when calling" in tw_msg[1]:
            res.twin = "refuted"
        else:
            res.twin = "unrefuted"
    else:
        res.twin = "n/a"
    if ob_msg is None:
        res.detail = "no verdict from crosshair: " + (err.strip().split("\n")[-1] if err.strip() else out[-300:])
        return res
    kind, msg = ob_msg
    if kind == "info" and msg.startswith("Confirmed over all paths"):
        if res.twin == "unrefuted":
            res.detail = "confirmed but reachability twin not refuted (vacuous?): {}".format(tw_msg)
            return res
        res.verdict = HOLDS
        res.detail = "Confirmed over all paths"
        return res
    if kind == "error":
        call = _parse_call(msg, job.func)
        res.cex = {"message": msg[:600], "call": call, "cell": job.env, "module": job.module,
                   "func": job.func, "lift": job.lift}
        if call is None:
            res.detail = "counterexample could not be parsed: " + msg[:300]
            return res
        rep = kernel_replay(job.module, job.func, call, job.env, job.lift)
        res.replay = rep
        if rep.get("kernel") != "reproduced":
            res.detail = "counterexample does not reproduce on the kernel (encoding/stub error): " + msg[:200]
            return res
        if job.lift:
            if rep.get("api") == "reproduced":
                res.verdict = VIOLATED
                res.detail = "kernel and API replay reproduced: " + str(rep.get("api_detail"))[:400]
            else:
                res.detail = "kernel-only counterexample (API replay: {}): {}".format(rep.get("api"), msg[:200])
            return res
        res.verdict = VIOLATED
        res.detail = "kernel replay reproduced on the real function: " + msg[:300]
        return res
    res.detail = msg[:300]
    return res


def run_jobs(jobs: List[Job], nproc: int = NPROC) -> List[Result]:
    tmpdir = tempfile.mkdtemp(prefix="vq-e1-")
    try:
        # prepare sources once (single-threaded) so that the cache is filled
        for m in sorted({j.module for j in jobs}):
            _prepare(m, tmpdir)
        # longest-first scheduling (purely a wall-time matter): obligations known to be heavy start first
        heavy = ("STACK-ADJ", "NamedNumber", "TimeDuration", "@latent", "STREAM", "ruleDateInterval", "ruleDateTimeDateTime", "API", "EMBED", "SUBJECT", "FIT", "latent-interval", "COUNT")
        order = sorted(range(len(jobs)), key=lambda i: (-(10 * sum(1 for h in heavy if h in jobs[i].name) + jobs[i].name.count(",") + 3 * jobs[i].name.count("POD")), i))
        with ThreadPoolExecutor(max_workers=nproc) as ex:
            done = list(ex.map(lambda i: (i, run_job(jobs[i], tmpdir)), order))
        done.sort(key=lambda x: x[0])
        return [r for _, r in done]
    finally:
        _SRC_CACHE.clear()
        shutil.rmtree(tmpdir, ignore_errors=True)
