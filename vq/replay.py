"""./vq-check --replay <file>: re-run one recorded counterexample against the current tree."""
import json


def main(path: str) -> int:
    with open(path) as fd:
        rec = json.load(fd)
    cex = rec.get("counterexample") or {}
    print("property:", rec.get("property"), " obligation:", rec.get("obligation"))
    print("bounds:", rec.get("bounds"))
    if cex.get("module") and cex.get("call") is not None:
        from .e1 import kernel_replay
        out = kernel_replay(cex["module"], cex["func"], cex["call"], cex.get("cell") or {}, cex.get("lift"))
        print(json.dumps(out, indent=1, default=str))
        bad = out.get("kernel") == "reproduced" and (not cex.get("lift") or out.get("api") == "reproduced")
        print("REPRODUCED" if bad else "NOT REPRODUCED on the current tree")
        return 1 if bad else 0
    if cex.get("replay_py"):
        # z3-engine counterexamples carry a self-contained python expression to evaluate
        import subprocess, sys, os
        p = subprocess.run([sys.executable, "-c", cex["replay_py"]], capture_output=True, text=True,
                           env=dict(os.environ, PYTHONPATH="/verif", PYTHONWARNINGS="ignore"))
        print(p.stdout[-2000:], p.stderr[-1000:])
        return 1 if "REPRODUCED" in p.stdout and "NOT REPRODUCED" not in p.stdout else 0
    print(json.dumps(rec, indent=1)[:3000])
    return 0
