"""E3 — the tiny scanners of ctparse/ctparse.py as bounded transducers over N symbolic characters
(z3), regenerated from the function sources on every run."""
from __future__ import annotations

import ast
import inspect
import sys
import time
from typing import Any, Dict, List, Tuple

import z3

from .core import Result, HOLDS, VIOLATED, INCONCLUSIVE, fn_id
from .rx.parse import parse

# abstract alphabet for the label scanners
ALPHA = {"#": "#", "letter": "a", "upper": "Q", "digit": "5", "_": "_", "-": "-", "blank": " ", "other": "!"}
NAMES = list(ALPHA)


def _find_patterns():
    """(extraction pattern, [strip patterns...]) read from the sources of _get_labels / ctparse / _ctparse"""
    import ctparse.ctparse  # noqa
    C = sys.modules["ctparse.ctparse"]
    ext = None
    for node in ast.walk(ast.parse(inspect.getsource(C._get_labels))):
        if isinstance(node, ast.Call) and getattr(node.func, "attr", "") == "findall":
            ext = node.args[0].value
    strips = []
    for fn in (C.ctparse, C._ctparse):
        for node in ast.walk(ast.parse(inspect.getsource(fn))):
            if isinstance(node, ast.Call) and getattr(node.func, "attr", "") == "sub" and isinstance(node.args[0], ast.Constant) and "#" in str(node.args[0].value):
                strips.append(node.args[0].value)
    return ext, strips, C


def _shape(pat: str):
    """'#' + optional single class + class with * or + ; -> (first_class_ast|None, run_class_ast, run_min)"""
    a = parse(pat)
    items = a[1] if a[0] == "seq" else [a]
    if not items or items[0] != ("chr", "#"):
        raise ValueError("pattern does not start with '#': %r" % pat)
    rest = items[1:]
    if len(rest) == 2 and rest[0][0] == "cls" and rest[1][0] in ("star", "plus") and rest[1][1][0] == "cls":
        return rest[0], rest[1][1], 0 if rest[1][0] == "star" else 1
    if len(rest) == 1 and rest[0][0] in ("star", "plus") and rest[0][1][0] == "cls":
        return None, rest[0][1], 0 if rest[0][0] == "star" else 1
    raise ValueError("unsupported label pattern shape: %r" % pat)


def _cls_members(cls_ast) -> List[bool]:
    """membership of each abstract class representative in a class AST (decided with stdlib re)"""
    import re
    neg, items = cls_ast[1], cls_ast[2]
    def render(it):
        if it[0] == "range":
            return "%s-%s" % (render(it[1]), render(it[2]))
        if it[0] == "esc":
            return "\\" + it[1]
        return re.escape(it[1])
    rx = re.compile("[" + ("^" if neg else "") + "".join(render(i) for i in items) + "]")
    return [bool(rx.fullmatch(ALPHA[n])) for n in NAMES]


def _scanner(cs, n, first, run, run_min, N):
    """per position: start[i], and cover[i][j] = match starting at i covers position j"""
    def mem(tab, c):
        return z3.Or(*[c == k for k, v in enumerate(tab) if v]) if any(tab) else z3.BoolVal(False)
    first_t = _cls_members(first) if first is not None else None
    run_t = _cls_members(run)
    HASH = NAMES.index("#")
    start, end = [], []
    covered = [z3.BoolVal(False)] * N
    for i in range(N):
        live = i < n
        ok = z3.And(live, cs[i] == HASH, z3.Not(covered[i]))
        j0 = i + 1
        if first_t is not None:
            ok = z3.And(ok, j0 < n, mem(first_t, cs[j0]) if j0 < N else z3.BoolVal(False))
            j0 += 1
        # run: maximal run of run-class characters from j0; need >= run_min
        runlen = z3.IntVal(0)
        alive = z3.BoolVal(True)
        for j in range(j0, N):
            alive = z3.And(alive, j < n, mem(run_t, cs[j]))
            runlen = runlen + z3.If(alive, 1, 0)
        ok = z3.And(ok, runlen >= run_min)
        e = z3.IntVal(j0) + runlen      # exclusive end
        start.append(ok)
        end.append(e)
        covered = [z3.Or(covered[j], z3.And(ok, j > i, j < e)) if j > i else covered[j] for j in range(N)]
    return start, end


def label_lemmas(tier) -> List[Result]:
    t0 = time.time()
    out = []
    try:
        ext, strips, C = _find_patterns()
        fe = _shape(ext)
        fs = [_shape(p) for p in strips]
        if len(strips) < 2:
            raise ValueError("expected the hashtag-stripping re.sub in both ctparse() and _ctparse(), found %d" % len(strips))
    except Exception as e:
        return [Result("C10.LABEL-SPANS", "z3", INCONCLUSIVE, detail="cannot encode the label patterns: %r" % (e,), bounds="")]
    N = 7 if tier == "quick" else 9
    cs = [z3.Int("c%d" % i) for i in range(N)]
    n = z3.Int("n")
    dom = [z3.And(c >= 0, c < len(NAMES)) for c in cs] + [n >= 0, n <= N]
    HASH, BLANK = NAMES.index("#"), NAMES.index("blank")
    tagstart = [NAMES.index(x) for x in ("letter", "upper", "_")]
    tagchar = [NAMES.index(x) for x in ("letter", "upper", "digit", "_", "-")]
    # the property's precondition: every '#' starts a valid hashtag [A-Za-z_][A-Za-z0-9_-]* delimited by separators
    pre = []
    for i in range(N):
        is_hash = z3.And(i < n, cs[i] == HASH)
        left = z3.BoolVal(True) if i == 0 else cs[i - 1] == BLANK
        nxt = z3.And(i + 1 < n, z3.Or(*[cs[i + 1] == k for k in tagstart])) if i + 1 < N else z3.BoolVal(False)
        # the tag run ends at the end of the text or at a blank
        delim = z3.BoolVal(True)
        alive = z3.BoolVal(True)
        for j in range(i + 1, N):
            intag = z3.And(j < n, z3.Or(*[cs[j] == k for k in tagchar]))
            stop_here = z3.And(alive, z3.Not(intag))
            delim = z3.And(delim, z3.Implies(stop_here, z3.Or(j >= n, cs[j] == BLANK)))
            alive = z3.And(alive, intag)
        pre.append(z3.Implies(is_hash, z3.And(left, nxt, delim)))
    sE, eE = _scanner(cs, n, fe[0], fe[1], fe[2], N)
    for k, (pat, f) in enumerate(zip(strips, fs)):
        sS, eS = _scanner(cs, n, f[0], f[1], f[2], N)
        diff = z3.Or(*[z3.Or(sE[i] != sS[i], z3.And(sE[i], eE[i] != eS[i])) for i in range(N)])
        # every '#' is the start of a match (labels = exactly the tags) and a match is '#' + the whole tag
        missing = z3.Or(*[z3.And(i < n, cs[i] == HASH, z3.Not(sE[i])) for i in range(N)])
        s = z3.Solver()
        s.set("timeout", 120000)
        s.add(*dom)
        s.add(*pre)
        s.add(z3.Or(diff, missing))
        t = time.time()
        r = str(s.check())
        res = Result("C10.LABEL-SPANS[strip#{}]".format(k), "z3", INCONCLUSIVE, seconds=time.time() - t,
                     bounds="every string of <= {} characters over the classes {} with valid, separator-delimited hashtags".format(N, NAMES),
                     functions=[fn_id(C._get_labels), "extraction pattern %r, strip pattern %r (read from the function sources)" % (ext, pat)])
        if r == "unsat":
            res.verdict, res.detail = HOLDS, "unsat: extraction and stripping find the same spans; every hashtag is found"
        elif r == "sat":
            m = s.model()
            nn = m.eval(n, model_completion=True).as_long()
            text = "".join(ALPHA[NAMES[m.eval(c, model_completion=True).as_long()]] for c in cs[:nn])
            import re
            labels = C._get_labels(text)
            stripped = re.sub(pat, "", text)
            tags = re.findall(r"#([A-Za-z_][A-Za-z0-9_-]*)", text)
            bad = labels != tags or "#" in stripped or any(t_ in stripped for t_ in tags if len(t_) > 1 and stripped.count(t_) > text.count(t_) - 1)
            res.cex = {"text": text, "labels": labels, "stripped": stripped, "tags": tags}
            if bad:
                res.verdict, res.detail = VIOLATED, "replayed on the real functions: text %r -> labels %r, stripped %r, tags %r" % (text, labels, stripped, tags)
                res.replay = {"kernel": "reproduced"}
            else:
                res.detail = "model %r does not reproduce on the real functions (encoding slack)" % text
        else:
            res.detail = "z3 answered " + r
        out.append(res)
    return out


# =====================================================================================
# _preprocess_string as a bounded transducer (C11)
# =====================================================================================

def _class_ranges(rx, surrogate_in):
    out, start = [], None
    for cp in range(0x110000):
        if 0xD800 <= cp <= 0xDFFF:
            inn = surrogate_in
        else:
            inn = bool(rx.fullmatch(chr(cp)))
        if inn and start is None:
            start = cp
        if not inn and start is not None:
            out.append((start, cp - 1))
            start = None
    if start is not None:
        out.append((start, 0x10FFFF))
    return out


def _spec_ranges(pred):
    out, start = [], None
    for cp in range(0x110000):
        inn = pred(cp)
        if inn and start is None:
            start = cp
        if not inn and start is not None:
            out.append((start, cp - 1))
            start = None
    if start is not None:
        out.append((start, 0x10FFFF))
    return out


def _in_ranges(c, rs):
    return z3.Or(*[z3.And(c >= a, c <= b) for a, b in rs]) if rs else z3.BoolVal(False)


def _check_source_shape(C):
    """the order of operations is read from the AST: _repl2.sub("-", _repl1.sub(" ", txt, ...).strip()).strip()"""
    src = inspect.getsource(C._preprocess_string)
    tree = ast.parse(src)
    calls = [n for n in ast.walk(tree) if isinstance(n, ast.Call) and isinstance(n.func, ast.Attribute)]
    seq = []
    for n in calls:
        base = n.func.value
        seq.append((getattr(base, "id", None) or getattr(getattr(base, "func", None), "attr", "?"), n.func.attr,
                    [a.value for a in n.args if isinstance(a, ast.Constant)]))
    names = [(a, b) for a, b, c in seq]
    ok = ("_repl1", "sub") in names and ("_repl2", "sub") in names and sum(1 for a, b in names if b == "strip") == 2
    consts = {a: c for a, b, c in seq if b == "sub"}
    ok = ok and consts.get("_repl1") == [" "] and consts.get("_repl2") == ["-"]
    # outermost call must be .strip() of _repl2.sub(..., <_repl1.sub(...).strip()>)
    ret = [n for n in ast.walk(tree) if isinstance(n, ast.Return)][0].value
    if isinstance(ret, ast.Call) and getattr(ret.func, "id", "") == "cast":
        ret = ret.args[1]
    try:
        ok = ok and ret.func.attr == "strip" and ret.func.value.func.attr == "sub" and ret.func.value.func.value.id == "_repl2" \
            and ret.func.value.args[1].func.attr == "strip" and ret.func.value.args[1].func.value.func.value.id == "_repl1"
    except Exception:
        ok = False
    return ok


def _run_pattern_shape(pat):
    """the two normaliser patterns must be single-path: one class (or alternation of classes) under +"""
    a = parse(pat.replace("\\p{Ps}", "X").replace("\\p{Pe}", "X").replace("\\p{Pd}", "X").replace("\\pZ", "X").replace("\\pC", "X")
              .replace("\\u2043", "Y").replace("\\u2010", "Y").replace("\\u2015", "Y"))
    items = a[1] if a[0] == "seq" else [a]
    return len(items) == 1 and items[0][0] == "plus"


F1 = z3.Function("cls1", z3.IntSort(), z3.BoolSort())
F2 = z3.Function("cls2", z3.IntSort(), z3.BoolSort())
FS = z3.Function("space", z3.IntSort(), z3.BoolSort())
BL, DA = 32, 45


def _compact(emit, o):
    K = len(o)
    pos, acc = [], z3.IntVal(0)
    for i in range(K):
        pos.append(acc)
        acc = acc + z3.If(emit[i], 1, 0)
    out = []
    for k in range(K):
        v = z3.IntVal(-1)
        for i in range(K - 1, -1, -1):
            v = z3.If(z3.And(emit[i], pos[i] == k), o[i], v)
        out.append(v)
    return out, acc


def _sub_run(chars, n, F, repl):
    emit, o = [], []
    for i in range(len(chars)):
        c = chars[i]
        incls = F(c)
        prev = z3.And(F(chars[i - 1]), True) if i > 0 else z3.BoolVal(False)
        emit.append(z3.And(i < n, z3.Or(z3.Not(incls), z3.Not(prev))))
        o.append(z3.If(incls, z3.IntVal(repl), c))
    return _compact(emit, o)


def _strip(chars, n):
    K = len(chars)
    lead, a = [], z3.BoolVal(True)
    for i in range(K):
        a = z3.And(a, i < n, FS(chars[i]))
        lead.append(a)
    trail, a = [None] * K, z3.BoolVal(True)
    for i in range(K - 1, -1, -1):
        a = z3.If(i < n, z3.And(a, FS(chars[i])), a)
        trail[i] = a
    emit = [z3.And(i < n, z3.Not(lead[i]), z3.Not(trail[i])) for i in range(K)]
    return _compact(emit, chars)


def _P(chars, n):
    a, na = _sub_run(chars, n, F1, BL)
    b, nb = _strip(a, na)
    c, nc = _sub_run(b, nb, F2, DA)
    return _strip(c, nc)


def preprocess_lemmas(tier) -> List[Result]:
    import unicodedata
    import ctparse.ctparse  # noqa
    C = sys.modules["ctparse.ctparse"]
    out = []
    fns = [fn_id(C._preprocess_string), "_repl1 = %r" % C._repl1.pattern, "_repl2 = %r" % C._repl2.pattern]
    if not _check_source_shape(C) or not _run_pattern_shape(C._repl1.pattern) or not _run_pattern_shape(C._repl2.pattern):
        return [Result("C11.PREPROCESS", "z3", INCONCLUSIVE, detail="_preprocess_string is not of the shape sub/strip/sub/strip over single-class '+' patterns: encoding refused", functions=fns)]
    t = time.time()
    R1 = _class_ranges(C._repl1, True)
    R2 = _class_ranges(C._repl2, False)
    SP = _spec_ranges(lambda cp: not (0xD800 <= cp <= 0xDFFF) and chr(cp).isspace())
    ttab = time.time() - t
    # ---- class agreement with the Unicode-category specification of the property text
    def spec1(cp):
        if 0xD800 <= cp <= 0xDFFF:
            return True
        ch = chr(cp)
        cat = unicodedata.category(ch)
        return ch in ",;" or cat[0] in "ZC" or cat in ("Ps", "Pe")
    def spec2(cp):
        if 0xD800 <= cp <= 0xDFFF:
            return False
        return unicodedata.category(chr(cp)) == "Pd" or 0x2010 <= cp <= 0x2015 or cp == 0x2043
    S1, S2 = _spec_ranges(spec1), _spec_ranges(spec2)
    c = z3.Int("cp")
    unassigned = _spec_ranges(lambda cp: not (0xD800 <= cp <= 0xDFFF) and unicodedata.category(chr(cp)) == "Cn")
    for nm, RR, SS in (("separator", R1, S1), ("dash", R2, S2)):
        s = z3.Solver()
        s.add(c >= 0, c <= 0x10FFFF, z3.Not(_in_ranges(c, unassigned)))
        s.add(_in_ranges(c, RR) != _in_ranges(c, SS))
        t = time.time()
        r = str(s.check())
        res = Result("C11.CLASS-AGREE[{}]".format(nm), "z3", HOLDS if r == "unsat" else INCONCLUSIVE, seconds=time.time() - t,
                     bounds="every assigned code point (symbolic), real compiled class ({} ranges) vs. Unicode-category specification ({} ranges); {} unassigned ranges excluded".format(len(RR), len(SS), len(unassigned)),
                     functions=fns, detail="unsat" if r == "unsat" else r)
        if r == "sat":
            cp = s.model()[c].as_long()
            real = bool((C._repl1 if nm == "separator" else C._repl2).fullmatch(chr(cp)))
            res.cex = {"code_point": hex(cp), "category": unicodedata.category(chr(cp)), "in_real_class": real}
            res.verdict = VIOLATED
            res.replay = {"kernel": "reproduced"}
            res.detail = "code point {} (category {}) : compiled class says {}, specification says {}".format(hex(cp), unicodedata.category(chr(cp)), real, not real)
        out.append(res)
    # ---- facts tying the abstract predicates to the tables (each its own query over one code point)
    facts = [("space => cls1", z3.And(_in_ranges(c, SP), z3.Not(_in_ranges(c, R1)))),
             ("cls1 and cls2 disjoint", z3.And(_in_ranges(c, R1), _in_ranges(c, R2))),
             ("blank in cls1 and space", z3.Not(z3.And(_in_ranges(z3.IntVal(BL), R1), _in_ranges(z3.IntVal(BL), SP)))),
             ("'-' in cls2, not space", z3.Not(z3.And(_in_ranges(z3.IntVal(DA), R2), z3.Not(_in_ranges(z3.IntVal(DA), SP)))))]
    facts_ok = True
    for nm, neg in facts:
        s = z3.Solver()
        s.add(c >= 0, c <= 0x10FFFF, neg)
        r = str(s.check())
        facts_ok = facts_ok and r == "unsat"
        out.append(Result("C11.FACT[{}]".format(nm), "z3", HOLDS if r == "unsat" else INCONCLUSIVE, bounds="every code point, tables from the real compiled classes ({:.1f}s)".format(ttab),
                          detail=r, functions=fns))
    N = 8 if tier == "quick" else 11
    cs = [z3.Int("c%d" % i) for i in range(N)]
    n = z3.Int("n")
    base = [n >= 0, n <= N] + [z3.And(x >= 0, x <= 0x10FFFF) for x in cs]
    for x in cs + [z3.IntVal(BL), z3.IntVal(DA)]:
        base += [z3.Implies(FS(x), F1(x)), z3.Not(z3.And(F1(x), F2(x)))]
    base += [F1(BL), FS(BL), F2(DA), z3.Not(FS(DA))]

    def concretise(m, chars, length):
        """pick real code points of the classes the model assigns"""
        txt = []
        for x in chars[:length]:
            v = m.eval(x, model_completion=True).as_long()
            is1 = z3.is_true(m.eval(F1(x), model_completion=True))
            is2 = z3.is_true(m.eval(F2(x), model_completion=True))
            iss = z3.is_true(m.eval(FS(x), model_completion=True))
            real1 = any(a <= v <= b for a, b in R1)
            real2 = any(a <= v <= b for a, b in R2)
            reals = any(a <= v <= b for a, b in SP)
            if (is1, is2, iss) == (real1, real2, reals):
                txt.append(chr(v) if not (0xD800 <= v <= 0xDFFF) else ",")
            elif iss:
                txt.append(" ")
            elif is1:
                txt.append(",")
            elif is2:
                txt.append("–")
            else:
                txt.append("a")
        return "".join(txt)

    def lemma(name, extra, goal_neg, what, replay):
        s = z3.Solver()
        s.set("timeout", 300000)
        s.add(*base)
        s.add(*extra)
        s.add(goal_neg)
        t = time.time()
        r = str(s.check())
        res = Result("C11." + name, "z3", INCONCLUSIVE, seconds=time.time() - t,
                     bounds="every string of <= {} code points; class membership abstracted to predicates constrained by the FACT obligations".format(N), functions=fns)
        if r == "unsat" and facts_ok:
            res.verdict, res.detail = HOLDS, "unsat: " + what
        elif r == "sat":
            m = s.model()
            w = replay(m)
            res.cex = w
            if w.get("bad"):
                res.verdict, res.detail, res.replay = VIOLATED, "replayed on the real _preprocess_string: %r" % (w,), {"kernel": "reproduced"}
            else:
                res.detail = "model does not reproduce on the real function: %r" % (w,)
        else:
            res.detail = "z3 answered " + r
        return res

    p1, n1 = _P(cs, n)
    p2, n2 = _P(p1, n1)
    def rep_idem(m):
        nn = m.eval(n, model_completion=True).as_long()
        txt = concretise(m, cs, nn)
        a = C._preprocess_string(txt)
        return {"text": txt, "P": a, "PP": C._preprocess_string(a), "bad": C._preprocess_string(a) != a}
    out.append(lemma("IDEMPOTENT", [], z3.Or(n1 != n2, *[z3.And(k < n1, p1[k] != p2[k]) for k in range(N)]),
                     "P(P(s)) = P(s)", rep_idem))
    # output contains no class-1 character except single interior blanks, no class-2 except '-'
    def rep_clean(m):
        nn = m.eval(n, model_completion=True).as_long()
        txt = concretise(m, cs, nn)
        a = C._preprocess_string(txt)
        bad = a != a.strip() or "  " in a or any(C._repl1.fullmatch(ch) and ch != " " for ch in a) or any(C._repl2.fullmatch(ch) and ch != "-" for ch in a)
        return {"text": txt, "P": a, "bad": bad}
    dirty = []
    for k in range(N):
        live = k < n1
        dirty.append(z3.And(live, F1(p1[k]), p1[k] != BL))
        dirty.append(z3.And(live, F2(p1[k]), p1[k] != DA))
        dirty.append(z3.And(live, p1[k] == BL, z3.Or(k == 0, k == n1 - 1)))
        if k + 1 < N:
            dirty.append(z3.And(k + 1 < n1, p1[k] == BL, p1[k + 1] == BL))
    out.append(lemma("CLEAN", [], z3.Or(*dirty), "output has single interior blanks only, dashes only as '-'", rep_clean))
    # separator run equivalence: s + u + t  ==  s + " " + t   (u a non-empty run of class-1 chars), and dash equivalence
    M = N - 2
    a = [z3.Int("a%d" % i) for i in range(M)]
    na = z3.Int("na")
    k = z3.Int("k")       # split position
    ul = z3.Int("ul")     # run length 1..2
    u = [z3.Int("u0"), z3.Int("u1")]
    s1 = []  # a[:k] + u[:ul] + a[k:]
    for i in range(N):
        v = z3.IntVal(0)
        for j in range(M):
            v = z3.If(z3.And(i < k, i == j), a[j], v)
            v = z3.If(z3.And(i >= k + ul, i - ul == j), a[j], v)
        v = z3.If(i == k, u[0], v)
        v = z3.If(z3.And(i == k + 1, ul == 2), u[1], v)
        s1.append(v)
    s2 = []  # a[:k] + " " + a[k:]
    for i in range(N):
        v = z3.IntVal(0)
        for j in range(M):
            v = z3.If(z3.And(i < k, i == j), a[j], v)
            v = z3.If(z3.And(i >= k + 1, i - 1 == j), a[j], v)
        v = z3.If(i == k, z3.IntVal(BL), v)
        s2.append(v)
    extra = [na >= 0, na <= M, k >= 0, k <= na, ul >= 1, ul <= 2, F1(u[0]), F1(u[1])] + [z3.And(x >= 0, x <= 0x10FFFF) for x in a + u]
    for x in a + u:
        extra += [z3.Implies(FS(x), F1(x)), z3.Not(z3.And(F1(x), F2(x)))]
    q1, m1 = _P(s1, na + ul)
    q2, m2 = _P(s2, na + 1)
    def rep_sep(m):
        nn, kk, uu = (m.eval(v, model_completion=True).as_long() for v in (na, k, ul))
        at = concretise(m, a, nn)
        ut = concretise(m, u, uu)
        t1, t2 = at[:kk] + ut + at[kk:], at[:kk] + " " + at[kk:]
        return {"with_run": t1, "with_blank": t2, "P1": C._preprocess_string(t1), "P2": C._preprocess_string(t2),
                "bad": C._preprocess_string(t1) != C._preprocess_string(t2)}
    out.append(lemma("SEPARATOR-RUN", extra, z3.Or(m1 != m2, *[z3.And(j < m1, q1[j] != q2[j]) for j in range(N)]),
                     "any non-empty run of separator characters is equivalent to one blank (also at the ends)", rep_sep))
    # every class-2 character is equivalent to '-'
    d = z3.Int("d")
    s3 = [z3.If(i == k, d, s2[i]) for i in range(N)]
    s4 = [z3.If(i == k, z3.IntVal(DA), s2[i]) for i in range(N)]
    q3, m3 = _P(s3, na + 1)
    q4, m4 = _P(s4, na + 1)
    def rep_dash(m):
        nn, kk = (m.eval(v, model_completion=True).as_long() for v in (na, k))
        at = concretise(m, a, nn)
        dt = concretise(m, [d], 1)
        t1, t2 = at[:kk] + dt + at[kk:], at[:kk] + "-" + at[kk:]
        return {"with_dash_variant": t1, "with_hyphen": t2, "bad": C._preprocess_string(t1) != C._preprocess_string(t2)}
    out.append(lemma("DASH", extra + [F2(d), d >= 0, d <= 0x10FFFF, z3.Not(F1(d)), z3.Not(FS(d))],
                     z3.Or(m3 != m4, *[z3.And(j < m3, q3[j] != q4[j]) for j in range(N)]),
                     "every dash variant is equivalent to '-'", rep_dash))
    return out
