"""Generator of the WF-BASE / WF-STEP / FRAME obligations (DESIGN §4).

Everything is recomputed from the live registry of /repo on every run:

* per regex pattern: presence patterns and numeric-group value ranges (vq.rx.groups);
* the set of reachable artifact *shapes* as a least fixpoint: the output shapes of the
  regex-only rules, closed under every rule whose real predicate closures admit the shapes
  (predicates are evaluated on one representative per shape);
* one obligation spec per (rule, admissible tuple of argument shapes).

The set of output shapes recorded for an obligation is part of its postcondition, so the
closure itself is solver-checked.
"""
from __future__ import annotations

import itertools
import json
from datetime import datetime
from typing import Any, Dict, List, Optional, Tuple

import ctparse  # noqa: F401
import ctparse.ctparse  # noqa: F401
from ctparse.rule import rules as REG, _regex as REGEX
from ctparse.types import Time, Interval, Duration, DurationUnit, pod_hours, Artifact

from .rx import groups as RG

FIELDS = ("year", "month", "day", "hour", "minute", "DOW", "POD")
PODS = sorted(pod_hours)
UNITS = [u for u in DurationUnit]

# value domains of the invariant WF (ranges; POD by index into PODS)
DOM_TOP = {"year": [[1880, 2109]], "month": [[1, 12]], "day": [[1, 31]], "hour": [[0, 23]],
           "minute": [[0, 59]], "DOW": [[0, 6]], "POD": [[0, len(PODS) - 1]]}
REP = {"year": 2020, "month": 3, "day": 15, "hour": 9, "minute": 30, "DOW": 2, "POD": "morning"}
REP2 = {"year": 2024, "month": 2, "day": 29, "hour": 14, "minute": 0, "DOW": 6, "POD": "night"}
REP3 = {"year": 2021, "month": 12, "day": 31, "hour": 0, "minute": 59, "DOW": 0, "POD": "veryearlymorning" if "veryearlymorning" in pod_hours else "morning"}
REP4 = {"year": 2019, "month": 1, "day": 1, "hour": 12, "minute": 15, "DOW": 3, "POD": "last"}
REPS = [REP, REP2, REP3, REP4]


def skey(a) -> str:
    if a is None:
        return "N"
    if isinstance(a, Time):
        return "T:" + ",".join(f for f in FIELDS if getattr(a, f) is not None)
    if isinstance(a, Interval):
        return "I:" + skey(a.t_from) + "|" + skey(a.t_to)
    if isinstance(a, Duration):
        return "D"
    return "?" + type(a).__name__


def parse_skey(k: str):
    if k == "N":
        return None
    if k.startswith("T:"):
        return ("T", [f for f in k[2:].split(",") if f])
    if k.startswith("I:"):
        a, b = k[2:].split("|")
        return ("I", parse_skey(a), parse_skey(b))
    if k == "D":
        return ("D",)
    raise ValueError(k)


def rep_of(k: str, rep: Dict[str, Any]):
    s = parse_skey(k)
    if s is None:
        return None
    if s[0] == "T":
        return Time(**{f: rep[f] for f in s[1]})
    if s[0] == "I":
        rep_b = dict(rep)
        # make the second end later than the first so that ordering guards accept the pair
        rep_b.update({"day": min(rep["day"] + 2, 28) if rep["day"] < 27 else rep["day"], "hour": min(rep["hour"] + 3, 23)})
        fa = None if s[1] is None else Time(**{f: rep[f] for f in s[1][1]})
        fb = None if s[2] is None else Time(**{f: rep_b[f] for f in s[2][1]})
        return Interval(fa, fb)
    if s[0] == "D":
        return Duration(3, DurationUnit.DAYS)


class StubGroups:
    def __init__(self, d):
        self.g = d

    def group(self, name):
        return self.g.get(name)


class StubMatch:
    """stands for a RegexMatch: a span and `.match.group(name)`"""

    def __init__(self, groups, mstart=0, mend=1):
        self.match = StubGroups(groups)
        self.mstart = mstart
        self.mend = mend


TEXT_READ = set()      # (rule name, group name): some sampled execution inspected the group's text


class TrackStr(str):
    """group text that records being inspected as text (anything beyond a truth test)"""
    _tag = None

    def _hit(self):
        if TrackStr._cur_rule is not None:
            TEXT_READ.add((TrackStr._cur_rule, self._tag))

    def lower(self):
        self._hit()
        return str.lower(self)

    def upper(self):
        self._hit()
        return str.upper(self)

    def strip(self, *a):
        self._hit()
        return str.strip(self, *a)

    def startswith(self, *a):
        self._hit()
        return str.startswith(self, *a)

    def endswith(self, *a):
        self._hit()
        return str.endswith(self, *a)

    def __eq__(self, o):
        self._hit()
        return str.__eq__(self, o)

    def __hash__(self):
        return str.__hash__(self)

    def __contains__(self, o):
        self._hit()
        return str.__contains__(self, o)

    def __getitem__(self, i):
        self._hit()
        return str.__getitem__(self, i)


TrackStr._cur_rule = None


def _track(text, group):
    t = TrackStr(text)
    t._tag = group
    return t


class Num:
    def __init__(self, v):
        self.v = v

    def __int__(self):
        return self.v

    def __repr__(self):
        return "Num(%r)" % (self.v,)


def _int(x, *a):
    return x.v if isinstance(x, Num) else int(x, *a)


def install_int_stub():
    """kept for callers that only run regex-only rules; prefer `int_stub()` (scoped)"""
    import ctparse.time.rules as TR
    TR.int = _int


class int_stub:
    """scoped replacement of the name `int` inside ctparse/time/rules.py by a function that maps
    a stubbed numeric group to the integer it denotes.  Scoped because a rule that uses `int` as a
    *type* (`type(x) == int`, ruleDateInterval) would silently change behaviour under the stub."""

    def __enter__(self):
        import ctparse.time.rules as TR
        self.TR = TR
        self.had = "int" in TR.__dict__
        self.old = TR.__dict__.get("int")
        TR.int = _int
        return self

    def __exit__(self, *a):
        if self.had:
            self.TR.int = self.old
        else:
            try:
                del self.TR.int
            except AttributeError:
                pass
        return False


def uses_int_as_type(fn) -> bool:
    import inspect
    import re as _re
    try:
        src = inspect.getsource(fn)
    except Exception:
        return True
    return bool(_re.search(r"(?<![\w.])int(?!\s*\()(?![\w])", _re.sub(r"#.*", "", src).replace("Optional[int]", "").replace("-> int", "")))


def bounded_texts(n, defines, cap=64) -> Optional[List[str]]:
    """texts of a non-numeric group: its language with every * / + cut to at most one
    repetition (a stated cut), lower and upper case"""
    def lang(n):
        k = n[0]
        if k == "seq":
            acc = {""}
            for x in n[1]:
                lx = lang(x)
                if lx is None:
                    return None
                acc = {a + b for a in acc for b in lx}
                if len(acc) > 4000:
                    return None
            return acc
        if k == "alt":
            out = set()
            for x in n[1]:
                lx = lang(x)
                if lx is None:
                    return None
                out |= lx
            return out
        if k == "grp":
            return lang(n[2])
        if k == "opt":
            lx = lang(n[1])
            return None if lx is None else lx | {""}
        if k in ("star",):
            lx = lang(n[1])
            return None if lx is None else lx | {""}
        if k == "plus":
            return lang(n[1])
        if k == "chr":
            return {n[1]}
        if k == "esc":
            return {"d": {"7"}, "s": {" "}, "w": {"a"}, "b": {""}}.get(n[1])
        if k == "cls":
            cs = RG._cls_chars(n[2], n[1])
            return None if cs is None else set(cs)
        if k == "call":
            return lang(defines[n[1]])
        if k in ("nla", "nlb", "flag"):
            return {""}
        if k == "any":
            return {"."}
        return None
    lx = lang(n)
    if lx is None:
        return None
    lx = {s for s in lx if s}
    out = sorted(lx | {s.upper() for s in lx})
    if len(out) > cap:
        return None
    return out


_PAT_CACHE: Dict[int, Dict[str, Any]] = {}


def pattern_info(rid: int) -> Dict[str, Any]:
    if rid in _PAT_CACHE:
        return _PAT_CACHE[rid]
    pat = REGEX[rid].pattern
    defines, body, _ = RG.split_pattern(pat)
    pres = sorted(sorted(p) for p in RG.presence(body))
    nums = RG.numeric_groups(pat)
    names = sorted({g for p in pres for g in p})
    texts = {}
    for g in names:
        if g in nums:
            continue
        node = RG.find_group(body, g)
        t = bounded_texts(node, defines, cap=40)
        # only keep real texts for small languages (read as text by _maybe_apply_am_pm);
        # otherwise presence is all a rule body can observe: text "x"
        texts[g] = t if t else ["x"]
    info = {"id": rid, "pres": pres, "num": {k: (v if v is not None else [[0, 10 ** 12]]) for k, v in nums.items()},
            "texts": texts}
    _PAT_CACHE[rid] = info
    return info


def rule_sig(name: str):
    """[(kind, payload)] per argument: ('rm', regex id) | ('pred', predicate closure)"""
    out = []
    for p in REG[name][1]:
        if p.__name__ == "_regex_match":
            out.append(("rm", p.__closure__[0].cell_contents))
        else:
            out.append(("pred", p))
    return out


def _stub_samples(info) -> List[StubMatch]:
    """concrete group stubs for shape discovery: every presence pattern x a few numeric values"""
    out = []
    for pres in info["pres"]:
        numnames = [g for g in pres if g in info["num"]]
        combos = []
        choices = []
        for g in numnames:
            rs = info["num"][g]
            vals = sorted({rs[0][0], rs[-1][1] if rs[-1][1] < 10 ** 6 else 40, rs[0][0] + 1 if rs[0][1] > rs[0][0] else rs[0][0], rs[-1][0]})
            choices.append(vals[:4])
        for combo in itertools.islice(itertools.product(*choices), 0, 40) if choices else [()]:
            d = {}
            for g in pres:
                if g in info["num"]:
                    d[g] = Num(combo[numnames.index(g)])
                else:
                    d[g] = _track(info["texts"][g][0], g)
            out.append(StubMatch(d))
    return out


TS_SAMPLES = [datetime(2024, 2, 29, 12, 43, 7), datetime(2023, 12, 31, 23, 59, 59), datetime(2020, 1, 1, 0, 0, 0)]


def admissible(pred, keys: List[str]) -> List[str]:
    out = []
    for k in keys:
        try:
            if bool(pred(rep_of(k, REP))):
                out.append(k)
        except Exception:
            pass
    return out


GRID = {"year": [2020, 2024, 2023], "month": [1, 2, 6, 12], "day": [1, 15, 28, 29, 31], "hour": [0, 1, 9, 12, 13, 23],
        "minute": [0, 1, 30, 59], "DOW": [0, 6], "POD": ["morning", "night", "last", "first", "afternoon"]}


def _grid_times(fields, rng, n):
    out = []
    for _ in range(n):
        kw = {f: rng.choice(GRID[f]) for f in fields}
        if "month" in kw and "day" in kw:
            from .spec.cal import mdays
            kw["day"] = min(kw["day"], mdays(kw.get("year"), kw["month"]))
        out.append(Time(**kw))
    return out


def _samples_for(kind, payload, rng, n):
    if kind == "rm":
        st = _stub_samples(pattern_info(payload))
        return [st[i % len(st)] for i in range(max(n, min(len(st), 400)))] if st else []
    s = parse_skey(payload)
    if s[0] == "T":
        return [rep_of(payload, r) for r in REPS] + _grid_times(s[1], rng, n)
    if s[0] == "D":
        return [Duration(v, u) for u in UNITS for v in (0, 1, 3, 24, 40)]
    out = [rep_of(payload, r) for r in REPS]
    for _ in range(n):
        a = None if s[1] is None else _grid_times(s[1][1], rng, 1)[0]
        b = None if s[2] is None else _grid_times(s[2][1], rng, 1)[0]
        out.append(Interval(a, b))
    return out


def discover(name: str, argspec: List[Tuple[str, Any]], n: int = 120) -> Tuple[set, int]:
    """run the real wrapper concretely on a grid of sample values of the given argument shapes;
    -> (set of output shape keys incl. 'N', number of exceptions seen).  Sampling only seeds the
    closure: a shape it misses is reported by the solver (postcondition `shape in ALLOWED`) and
    added by the driver's closure loop."""
    import copy
    import random
    rng = random.Random(12345)
    w = REG[name][0]
    outs = set()
    exc = 0
    per_arg = [_samples_for(k, pl, rng, n) for k, pl in argspec]
    if any(not x for x in per_arg):
        return outs, exc
    m = max(len(x) for x in per_arg)
    combos = []
    for i in range(max(m, n * 3)):
        combos.append([x[(i * (j + 1) + j) % len(x)] if i < m else rng.choice(x) for j, x in enumerate(per_arg)])
    TrackStr._cur_rule = name
    try:
        for args in combos:
            ts = TS_SAMPLES[len(outs) % 2]
            a2 = [a if isinstance(a, StubMatch) else copy.deepcopy(a) for a in args]
            try:
                if any(isinstance(a, StubMatch) for a in a2):
                    with int_stub():
                        r = w(ts, *a2)
                else:
                    r = w(ts, *a2)
                outs.add(skey(r))
            except Exception:
                exc += 1
    finally:
        TrackStr._cur_rule = None
    return outs, exc


def build(max_iter: int = 12, extra: Optional[Dict[str, List[str]]] = None) -> Dict[str, Any]:
    """-> {"reach": [shape keys], "obligations": [spec...]};  `extra`: obligation key -> output
    shapes the solver found beyond the sampled ones (closure loop)"""
    extra = extra or {}
    reach = set()
    obligations: Dict[str, Dict[str, Any]] = {}
    names = list(REG)
    sigs = {n: rule_sig(n) for n in names}
    for it in range(max_iter):
        before = len(reach)
        n_ob_before = len(obligations)
        for name in names:
            sig = sigs[name]
            options = []
            for kind, payload in sig:
                if kind == "rm":
                    options.append([("rm", payload)])
                else:
                    options.append([("art", k) for k in admissible(payload, sorted(reach))])
            if any(not o for o in options):
                continue
            for combo in itertools.product(*options):
                key = name + "(" + ";".join(str(c[1]) for c in combo) + ")"
                if key in obligations:
                    continue
                outs, exc = discover(name, [(c[0] if c[0] == "rm" else "art", c[1]) for c in combo])
                outs |= set(extra.get(key, []))
                obligations[key] = {"rule": name, "args": [list(c) for c in combo], "allowed": sorted(outs), "sample_exceptions": exc,
                                    "text_groups": sorted(g for (r, g) in TEXT_READ if r == name)}
                for o in outs:
                    if o not in ("N",) and not o.startswith("?"):
                        reach.add(o)
        if len(reach) == before and len(obligations) == n_ob_before:
            break
    return {"reach": sorted(reach), "obligations": obligations, "iterations": it + 1}


if __name__ == "__main__":
    import sys
    b = build()
    print("iterations", b["iterations"], "reach", len(b["reach"]), "obligations", len(b["obligations"]))
    for k in b["reach"]:
        print("  ", k)
    from collections import Counter
    c = Counter(o["rule"] for o in b["obligations"].values())
    print(c.most_common())
    print("sample exceptions:", {k: o["sample_exceptions"] for k, o in b["obligations"].items() if o["sample_exceptions"]})
