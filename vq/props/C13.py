"""C13 — timeout honoured: bounded work between deadline checks, clean partial results."""
import os
import subprocess
from ..core import finish, fn_id, VERIF
from ..e1 import Job, run_jobs, PY

H = "vq.harness.h_timeout"


def nreads(text):
    repo = os.environ.get("VQ_REPO")
    env = dict(os.environ, PYTHONPATH=(repo + os.pathsep if repo else "") + VERIF, PYTHONWARNINGS="ignore", VQ_TEXT=text)
    p = subprocess.run([PY, "-c", "import vq.harness.h_timeout as H; print('NREADS', H.NREADS)"], env=env, capture_output=True, text=True)
    for line in p.stdout.split("\n"):
        if line.startswith("NREADS"):
            return int(line.split()[1])
    raise RuntimeError(p.stderr[-500:])


def jobs(tier):
    import sys
    import ctparse.ctparse  # noqa
    C = sys.modules["ctparse.ctparse"]
    T = sys.modules["ctparse.timers"]
    out = [Job("C13.timer", H, "ob_timer", timeout=300, bounds="timeout 0..1000 s, start and two non-decreasing later clock values, symbolic integer ticks (float rounding outside the claim)",
               functions=[fn_id(T.timeout)], stubs=["perf_counter scripted"], site="timers.timeout")]
    texts = ["tomorrow 8pm", "9 9", "9 9 9"] if tier == "quick" else ["tomorrow 8pm", "mon 8", "9", "9 9", "9 9 9", "mon 8 9", "heute 9 uhr 30"]
    for text in texts:
        n = nreads(text)
        chunk = 40 if tier == "quick" else 60
        for lo in range(0, n + 2, chunk):
            hi = min(lo + chunk - 1, n + 1)
            out.append(Job("C13.expiry[{!r}:{}..{}]".format(text, lo, hi), H, "ob_expiry",
                           env={"VQ_TEXT": text, "VQ_KLO": str(lo), "VQ_KHI": str(hi)}, timeout=900, path_timeout=60,
                           bounds="text {!r}, real rule base, constant scorer, no depth limit: deadline expiring at clock read k for every k in {}..{} of {} reads".format(text, lo, hi, n),
                           functions=[fn_id(C._ctparse), fn_id(C.ctparse_gen), fn_id(C.ctparse), fn_id(C._regex_stack), fn_id(T.timeout), fn_id(T.timeit)],
                           stubs=["ctparse.timers.perf_counter replaced by a stub clock; the parser runs untraced, only the clock's comparison with k is symbolic"],
                           site="_ctparse"))
    return out


def run(tier, t0, only=None):
    js = [j for j in jobs(tier) if not only or only in j.name]
    res = run_jobs(js)
    return finish(
        "C13", tier, res, t0,
        assumptions=["the parser reads the clock only through ctparse.timers.perf_counter", "CrossHair's NoTracing/ResumedTracing leave untraced code to plain CPython"],
        explanation="For each text the deadline is made to fall at clock read k with k symbolic; CrossHair covers every k (one concrete run of the real parser per path): never raises, "
                    "yields a prefix of the run without timeout, ctparse() returns the best of that prefix or an empty result, no clock-checked step starts after the first late read, "
                    "between two deadline checks at most one candidate sequence is analysed or one partial parse expanded, and the work between two consecutive clock reads stays within a bound linear in the number of tokens (n+2 rule calls, 2n+1 scorings) although the number of candidate "
                    "sequences is 3^n. timers.timeout: raises iff now-start > timeout, never for 0.",
        outside=["real clocks", "texts other than the listed ones", "scorers other than the constant one in this harness"])
