"""C03 — relative-day expressions hit the exact calendar day (DESIGN §5 C03)."""
from ..core import finish, fn_id
from ..e1 import Job, run_jobs
from .cells import cells, years

MOD = "vq.harness.h_rel"
A = ["today", "now", "eom", "eoy"]
B = ["tomorrow", "aftertomorrow", "yesterday", "beforeyesterday"]
C = ["atdow", "latentdow", "nextdow", "downextweek"]
RULE = {"today": "ruleToday", "now": "ruleNow", "tomorrow": "ruleTomorrow", "aftertomorrow": "ruleAfterTomorrow",
        "yesterday": "ruleYesterday", "beforeyesterday": "ruleBeforeYesterday", "eom": "ruleEOM", "eoy": "ruleEOY",
        "atdow": "ruleAtDOW", "latentdow": "ruleLatentDOW", "nextdow": "ruleNextDOW", "downextweek": "ruleDOWNextWeek"}


def jobs(tier):
    from ..harness.common import body
    out = []
    for n in A:
        out.append(Job("C03.{}[2016..2043]".format(n), MOD, "ob_" + n, timeout=240 if tier == "quick" else 600,
                       bounds="ts: every instant 2016-01-01..2043-12-31 (y, mo, d, h, mi, s symbolic)",
                       functions=[fn_id(body(RULE[n])), "dateutil.relativedelta.relativedelta.__radd__ (real, executed symbolically)"],
                       lift="lift_" + n, site=RULE[n]))
    for y in years(tier):
        for n in B:
            out.append(Job("C03.{}[{}]".format(n, y), MOD, "ob_" + n + "_y", env={"VQ_Y": str(y)}, timeout=150,
                           bounds="ts: every instant of year {} (mo, d, h, mi, s symbolic)".format(y),
                           functions=[fn_id(body(RULE[n])), "dateutil.relativedelta (real)"],
                           lift="lift_" + n + "_y", site=RULE[n]))
    for (y, m) in cells(tier, "C"):
        for n in C:
            out.append(Job("C03.{}[{}-{:02d}]".format(n, y, m), MOD, "ob_" + n, env={"VQ_Y": str(y), "VQ_M": str(m)},
                           timeout=150 if tier == "quick" else 400,
                           bounds="ts: every instant of {}-{:02d} (d, h, mi, s symbolic), weekday 0..6 symbolic".format(y, m),
                           functions=[fn_id(body(RULE[n])), "dateutil.relativedelta (real)"],
                           lift="lift_" + n, site=RULE[n]))
    import sys
    import ctparse.ctparse  # noqa
    CC = sys.modules["ctparse.ctparse"]
    out.append(Job("C03.TS-DEFAULT", "vq.harness.h_api2", "ob_ts_default", timeout=1800, path_timeout=120,
                   bounds="6 texts x 4 years x 4 months x 3 days x 3 hours x 3 minutes: ctparse(text) with the clock stubbed to ts equals ctparse(text, ts=ts)",
                   functions=[fn_id(CC.ctparse_gen)], stubs=["ctparse.ctparse.datetime replaced by a subclass whose now() returns the pool instant; parser untraced, pool indices symbolic"], site="ctparse_gen"))
    return out


def run(tier, t0, only=None):
    js = [j for j in jobs(tier) if not only or only in j.name]
    res = run_jobs(js)
    return finish(
        "C03", tier, res, t0,
        assumptions=["CrossHair's symbolic datetime model agrees with CPython's datetime (counterexamples are replayed concretely; confirmations rely on it)",
                     "the surface form reaches the rule checked and its result wins the ranking (ranking under the shipped float model is outside the claim; used only in replay)"],
        explanation="Each relative-day rule body of ctparse/time/rules.py is executed symbolically (CrossHair/z3) together with the real "
                    "dateutil arithmetic and compared with an independent integer calendar specification (vq/spec/cal.py). today/now/EOM/EOY: whole 28-year range symbolic in one obligation; +-1/2 days: year case split ({} years this tier), "
                    "month/day/time symbolic; weekday arithmetic: year x month case split ({} cells this tier), day/time/weekday symbolic.".format(len(years(tier)), len(cells(tier, "C"))),
        outside=["which candidate the shipped model ranks first for each surface form (checked only concretely in replay)",
                 "reference years outside 2016..2043", "microseconds of ts (rules never read them)"])
