"""C12 — a parse is a pure function of its arguments."""
from ..core import finish, fn_id
from ..e1 import Job, run_jobs
from ..wfrun import run_wf

HS = "vq.harness.h_search"
HP = "vq.harness.h_pure"


def jobs(tier):
    import sys
    import ctparse.ctparse  # noqa
    C = sys.modules["ctparse.ctparse"]
    NS = sys.modules["ctparse.nb_scorer"]
    from .C15 import STUBS
    return [
        Job("C12.INTERLEAVE", HS, "ob_interleave", timeout=900, bounds="two streams of the real _ctparse generator (9 candidates each, different scorers) stepped by a symbolic schedule of 8 booleans (generators untraced, schedule symbolic); second stream optionally abandoned; a third parse afterwards",
            functions=[fn_id(C._ctparse)], stubs=STUBS, site="_ctparse"),
        Job("C12.HIST-rules", HP, "ob_hist_rules", timeout=900, bounds="two consecutive calls of ruleDOMMonth / ruleHHMM / ruleDateTOD / ruleTODTOD with independent symbolic arguments",
            functions=["registered wrappers of ruleDOMMonth, ruleHHMM, ruleDateTOD, ruleTODTOD"], site="rules"),
        Job("C12.API-HISTORY", HP, "ob_api_history", timeout=1800, path_timeout=120,
            bounds="earlier call (10 texts; completed, abandoned stream, or failing) followed by a call from the same pool (10 texts x latent on/off) followed by a call from the same pool: result equals the solo result; registry, regex tables, part-of-day table and model unchanged",
            functions=[fn_id(C.ctparse), fn_id(C.ctparse_gen), fn_id(C._ctparse)], stubs=["parser runs untraced; only the symbolic pool indices are traced (solver covers every combination)"], site="ctparse"),
        Job("C12.MODEL-FRAME", HP, "ob_model_frame", timeout=600, bounds="documents of 0..4 tokens over 4 known + 1 unseen token: prediction leaves vocabulary / priors / likelihoods unchanged, is repeatable, finite and normalised",
            functions=[fn_id(NS.CTParsePipeline.predict_log_proba)], stubs=["pipeline trained concretely on a 4-document toy corpus; untraced execution per document"], site="pipeline"),
    ]


def run(tier, t0, only=None):
    res, info = run_wf("C12", tier, only=only)
    js = [j for j in jobs(tier) if not only or only in j.name]
    res += run_jobs(js)
    return finish(
        "C12", tier, res, t0,
        assumptions=["single interpreter thread"],
        explanation="FRAME (every rule wrapper leaves its arguments incl. spans untouched and does not alias its result), INTERLEAVE (two candidate streams stepped by every "
                    "schedule of 6 steps keep their solo outputs; abandoned streams), HIST (rule contracts in two-call form; API calls after any earlier call from a pool give the solo "
                    "result and leave registry / regex tables / model untouched), MODEL-FRAME.",
        outside=["OS threads, PYTHONHASHSEED, fresh-process equality: not solver variables with anything installed (stated not applicable inside this property)",
                 "histories longer than one earlier call at API level"],
        extra_cov=info)
