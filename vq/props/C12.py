"""C12 — a parse is a pure function of its arguments."""
from ..core import finish, fn_id
from ..e1 import Job, run_jobs
from ..wfrun import run_wf

HS = "vq.harness.h_search"
HP = "vq.harness.h_pure"


def jobs(tier):
    import sys
    import ctparse.ctparse  # noqa
    C = sys.modules["ctparse.ctparse"]
    NS = sys.modules["ctparse.nb_scorer"]
    from .C15 import STUBS
    return [
        Job("C12.INTERLEAVE", HS, "ob_interleave", timeout=900, bounds="two streams of the real _ctparse generator (9 candidates each, different scorers) stepped by a symbolic schedule of 8 booleans (generators untraced, schedule symbolic); second stream optionally abandoned; a third parse afterwards",
            functions=[fn_id(C._ctparse)], stubs=STUBS, site="_ctparse"),
        Job("C12.HIST-rules", HP, "ob_hist_rules", timeout=900, bounds="two consecutive calls of ruleDOMMonth / ruleHHMM / ruleDateTOD / ruleTODTOD with independent symbolic arguments",
            functions=["registered wrappers of ruleDOMMonth, ruleHHMM, ruleDateTOD, ruleTODTOD"], site="rules"),
        Job("C12.API-HISTORY", HP, "ob_api_history", timeout=1800, path_timeout=120,
            bounds="earlier call (10 texts; completed, abandoned stream, or failing) followed by a call from the same pool (10 texts x latent on/off) followed by a call from the same pool: result equals the solo result; registry, regex tables, part-of-day table and model unchanged",
            functions=[fn_id(C.ctparse), fn_id(C.ctparse_gen), fn_id(C._ctparse)], stubs=["parser runs untraced; only the symbolic pool indices are traced (solver covers every combination)"], site="ctparse"),
        Job("C12.MODEL-FRAME", HP, "ob_model_frame", timeout=600, bounds="documents of 0..4 tokens over 4 known + 1 unseen token: prediction leaves vocabulary / priors / likelihoods unchanged, is repeatable, finite and normalised",
            functions=[fn_id(NS.CTParsePipeline.predict_log_proba)], stubs=["pipeline trained concretely on a 4-document toy corpus; untraced execution per document"], site="pipeline"),
    ]


def fresh_solo_tables():
    """two fresh interpreter processes compute the reference table of API-HISTORY in opposite pool
    orders; they must agree (else some result depends on what was parsed before) and the forward one
    is handed to the harness"""
    import json, os, subprocess, tempfile, time
    from ..core import Result, HOLDS, VIOLATED, INCONCLUSIVE, VERIF
    from ..e1 import PY
    t = time.time()
    tabs = []
    repo = os.environ.get("VQ_REPO")
    env = dict(os.environ, PYTHONPATH=(repo + os.pathsep if repo else "") + VERIF, PYTHONWARNINGS="ignore")
    env.pop("VQ_SOLO", None)
    env["VQ_SOLO_CHILD"] = "1"
    for rev in (False, True):
        p = subprocess.run([PY, "-c", "import json, vq.harness.h_pure as P; print('TABLE' + json.dumps(P.solo_table(%r)))" % rev],
                           env=env, capture_output=True, text=True, cwd=VERIF)
        line = [l for l in p.stdout.split("\n") if l.startswith("TABLE")]
        if not line:
            return None, Result("C12.SOLO-ORDER", "ground", INCONCLUSIVE, detail="reference table could not be computed: " + p.stderr[-300:])
        tabs.append(json.loads(line[0][5:]))
    diff = [k for k in tabs[0] if tabs[0][k] != tabs[1][k]]
    # string-hash seed: the constant-scorer streams of two fresh processes with different PYTHONHASHSEED
    seeds = []
    for seed in ("0", "12345"):
        p = subprocess.run([PY, "-c", "import json, vq.harness.h_pure as P; print('TABLE' + json.dumps(P.dummy_table()))"],
                           env=dict(env, PYTHONHASHSEED=seed), capture_output=True, text=True, cwd=VERIF)
        line = [l for l in p.stdout.split("\n") if l.startswith("TABLE")]
        seeds.append(json.loads(line[0][5:]) if line else None)
    if None not in seeds:
        for k in seeds[0]:
            if seeds[0][k] != seeds[1][k]:
                diff.append("constant-scorer stream of %r under PYTHONHASHSEED 0 vs 12345" % k)
                tabs[0][diff[-1]], tabs[1][diff[-1]] = seeds[0][k][1:], seeds[1][k][1:]
    fd, path = tempfile.mkstemp(prefix="vq-solo-", suffix=".json")
    with os.fdopen(fd, "w") as f:
        json.dump(tabs[0], f)
    # a key's first occurrence in a fresh process: forward table for the first pool entries, reverse table for the last
    res = Result("C12.SOLO-ORDER", "ground", HOLDS if not diff else VIOLATED, seconds=time.time() - t,
                 bounds="{} (text, reference time, latent, depth) combinations, each computed in two fresh processes in opposite orders; 4 constant-scorer streams in two fresh processes with different PYTHONHASHSEED".format(len(tabs[0])),
                 detail="identical" if not diff else "result for %s depends on the calls made before it: %r vs %r" % (diff[0], tabs[0][diff[0]], tabs[1][diff[0]]),
                 functions=["ctparse.ctparse (real, fresh processes)"], replay=None if not diff else {"kernel": "reproduced", "key": diff[0]})
    return path, res


def run(tier, t0, only=None):
    import os
    from concurrent.futures import ThreadPoolExecutor
    path, solo = fresh_solo_tables()
    if path:
        os.environ["VQ_SOLO"] = path
    js = [j for j in jobs(tier) if not only or only in j.name]
    with ThreadPoolExecutor(2) as ex:
        f1 = ex.submit(run_wf, "C12", tier, None, (2024, 2), True, None, only)
        f2 = ex.submit(run_jobs, js, 6)
        res, info = f1.result()
        res += f2.result()
    res.append(solo)
    if path:
        os.remove(path)
    return finish(
        "C12", tier, res, t0,
        assumptions=["single interpreter thread"],
        explanation="FRAME (every rule wrapper leaves its arguments incl. spans untouched and does not alias its result), INTERLEAVE (two candidate streams stepped by every "
                    "schedule of 6 steps keep their solo outputs; abandoned streams), HIST (rule contracts in two-call form; API calls after any earlier call from a pool give the solo "
                    "result and leave registry / regex tables / model untouched), MODEL-FRAME.",
        outside=["OS threads, PYTHONHASHSEED, fresh-process equality: not solver variables with anything installed (stated not applicable inside this property)",
                 "histories longer than one earlier call at API level"],
        extra_cov=info)
