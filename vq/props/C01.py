"""C01 — parsing is total."""
from ..core import finish, fn_id
from ..e1 import Job, run_jobs
from ..wfrun import run_wf

H = "vq.harness.h_total"


def latent_doy_jobs(prop):
    """ruleLatentDOY after a leap day / at the year end: its exact contract (which implies
    'raises nothing' and a well-formed result) on cells where the symbolic WF obligation is fragile"""
    from ..harness.common import body
    out = []
    for (y, m) in ((2024, 3), (2024, 12), (2023, 3)):
        e = {"VQ_Y": str(y), "VQ_M": str(m)}
        out.append(Job("{}.LATENT-DOY-29Feb[{}-{:02d}]".format(prop, y, m), "vq.harness.h_latent", "ob_latentdoy_feb29_c", env=e, timeout=300,
                       bounds="ts: every instant of {}-{:02d}; written date 29 Feb".format(y, m), functions=[fn_id(body("ruleLatentDOY"))], site="ruleLatentDOY"))
    out.append(Job("{}.LATENT-DOY[2024-03]".format(prop), "vq.harness.h_latent", "ob_latentdoy_c", env={"VQ_Y": "2024", "VQ_M": "3"}, timeout=600,
                   bounds="ts: every instant of 2024-03; every (day, month) pair except 29 Feb", functions=[fn_id(body("ruleLatentDOY"))], site="ruleLatentDOY"))
    return out


def extra_jobs(tier):
    from ..harness.common import CT, body
    import sys
    LD = sys.modules["ctparse.loader"]
    return latent_doy_jobs("C01") + [
        Job("C01.result", H, "ob_result", timeout=900,
            bounds="stream of 0..2 candidates (6 resolution kinds by index, 2 score values by index; indices symbolic, result construction untraced), the [None] stream, 6 raw texts incl. empty/label-only, latent on/off",
            functions=[fn_id(CT.ctparse), fn_id(CT.CTParse.__str__), fn_id(CT.CTParse.__repr__), fn_id(CT._get_labels)],
            stubs=["ctparse_gen replaced by a scripted stream"], lift="lift_result", site="ctparse"),
        Job("C01.default-scorer", H, "ob_default_scorer", timeout=60, bounds="model file present / absent (symbolic bool)",
            functions=[fn_id(LD.load_default_scorer)], stubs=["absent case: the real loader runs against a path that does not exist; present case: the scorer loaded at import is inspected"], site="load_default_scorer"),
    ] + [
        Job("C01.duration-overflow[{}:{}..{}]".format(u, lo, hi), H, "ob_overflow", timeout=200,
            env={"VQ_ULO": str(ui), "VQ_UHI": str(ui + 1), "VQ_NLO": str(lo), "VQ_NHI": str(hi)},
            bounds="'<date[ hour]> for N {}' with {} <= N <= {}, day 1..28 of 2018-03".format(u, lo, hi),
            functions=[fn_id(body("ruleTimeDuration"))], lift="lift_overflow", site="ruleTimeDuration")
        # months: calendar.monthrange on a symbolic out-of-range year does not finish in 200 s -> outside the claim
        for ui, u in enumerate(["minutes", "hours", "days", "nights", "weeks"])
        for (lo, hi) in ((10 ** 10, 10 ** 13),)
    ] + [
        Job("C01.LSE-RANGE", "vq.harness.h_pure", "ob_lse_range", timeout=300, bounds="_log_sum_exp on pairs from {-5000, -1000, -800, -745.5, -30, -1, 0}: finite, within [max, max + log 2] (no underflow to log 0)",
            functions=["ctparse.nb_estimator._log_sum_exp"], site="_log_sum_exp"),
        Job("C01.duration-interval-big", H, "ob_durint_big", timeout=200, bounds="'N <unit> <date range>' with 0 <= N <= 10^13",
            functions=[fn_id(body("ruleDurationInterval"))], site="ruleDurationInterval"),
    ]


def run(tier, t0, only=None):
    from concurrent.futures import ThreadPoolExecutor
    exj = [j for j in extra_jobs(tier) if not only or only in j.name]
    with ThreadPoolExecutor(2) as ex:
        f1 = ex.submit(run_wf, "C01", tier, None, (2024, 2), True, None, only)
        f2 = ex.submit(run_jobs, exj, 6)
        res, info = f1.result()
        res += f2.result()
    return finish(
        "C01", tier, res, t0,
        assumptions=["arguments of rule applications satisfy the invariant WF (shown inductive by the C02 obligations)",
                     "regex engine contract (group texts lie in their group's language)"],
        explanation="Totality layer by layer: every registered rule wrapper, the accessors and the latent post-processing raise nothing on any well-formed "
                    "argument tuple (CrossHair, clause 'exc' of the WF family); duration arithmetic far outside the calendar; result construction and "
                    "rendering on a scripted candidate stream incl. the empty and [None] streams; default-scorer fallback. Search-layer totality: C13-C15 obligations.",
        outside=["free Unicode text as a solver variable (regex engine is C code): covered through 'whatever the engine matches, the rules survive it'",
                 "ruleDOWDOM (rrule)", "quick tier: 2 argument-shape tuples per rule",
                 "huge month counts in 'X for N months' (inconclusive: calendar.monthrange on a symbolic year); amounts between 120 and 10^10"],
        extra_cov=info)
