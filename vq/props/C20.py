"""C20 — date part and clock part compose."""
from ..core import finish, fn_id
from ..e1 import Job, run_jobs

H = "vq.harness.h_compose"


def jobs(tier):
    from ..harness.common import body
    out = []

    def J(name, fn, rules, bounds, lift=None, timeout=600):
        out.append(Job("C20." + name, H, fn, timeout=timeout, bounds=bounds, functions=[fn_id(body(r)) for r in rules], lift=lift, site=rules[0]))
    J("date+clock", "ob_datetod", ["ruleDateTOD", "ruleTODDate"], "every valid date 1880..2109 x hour x optional minute x both orders", "lift_datetod")
    J("date+part-of-day", "ob_datepod", ["ruleDatePOD", "rulePODDate"], "every valid date x 6 parts of day x both orders", "lift_datepod")
    J("dayname+date", "ob_dowdate", ["ruleDOWDate", "ruleDateDOW"], "every valid date x weekday x optional part of day x both orders")
    J("absorb-connector", "ob_absorb", ["ruleAbsorbOnTime"], "'at/um/am/on <time>': 5 shapes of the time value, all fields symbolic; value and span of the argument unchanged")
    import sys
    import ctparse.ctparse  # noqa
    CC = sys.modules["ctparse.ctparse"]
    out.append(Job("C20.COMPOSE-API", "vq.harness.h_api2", "ob_compose", timeout=3600, path_timeout=300,
                   bounds="15 day expressions (incl. month-end days) (absolute, relative, weekday, day of month, day+month; EN/DE) x 8 clock notations x {'', 'at', 'um'} x both orders x 3 reference times, max_stack_depth=0: "
                          "the day the date part alone resolves to, at the clock part's hour and minute",
                   functions=[fn_id(CC.ctparse)], stubs=["parser untraced; pool indices symbolic (solver covers every combination)"], site="ctparse"))
    return out


def tok_lemmas():
    from .. import toklemmas as T, e2
    from ..spec import words as W
    import z3
    from ..rx.z3re import X, query
    from ..core import Result, HOLDS, VIOLATED, INCONCLUSIVE
    out = [e2.validate(200)]
    pats, _ = e2.patterns()
    x = X()
    for w in W.CONNECT:
        r, dt, _ = query([x == z3.StringVal(w), z3.InRe(x, pats[100].plain)], 20000, False)
        out.append(Result("C20.CONNECT[{}]".format(w), "z3", HOLDS if r == "sat" else VIOLATED, seconds=dt, bounds="ground membership in the connector pattern (id 100)",
                          detail="%r %s L(100)" % (w, "in" if r == "sat" else "NOT in"), functions=["pattern 100"], replay=None if r == "sat" else {"kernel": "reproduced"}))
    return out


def known_witnesses():
    def beam():
        from datetime import datetime
        import sys
        import ctparse.ctparse  # noqa
        C = sys.modules["ctparse.ctparse"]
        r = C.ctparse("3. april 2022 at half past 7", ts=datetime(2018, 3, 7, 12, 43), timeout=0).resolution
        ok = (getattr(r, "year", None), getattr(r, "month", None), getattr(r, "day", None), getattr(r, "hour", None), getattr(r, "minute", None)) == (2022, 4, 3, 7, 30)
        return None if ok else "'3. april 2022 at half past 7' (default max_stack_depth) -> %s" % (r,)
    return {"beam-prunes-long-compose": beam}


def run(tier, t0, only=None):
    from ..core import known_lines_for
    js = [j for j in jobs(tier) if not only or only in j.name]
    res = run_jobs(js)
    res += [r for r in tok_lemmas() if not only or only in r.name]
    return finish(
        "C20", tier, res, t0, known_lines=known_lines_for("C20", known_witnesses()),
        assumptions=["the day part alone resolves to the date value handed to the composition rule (C03-C05 contracts)", "arguments well formed (C02)"],
        explanation="COMPOSE: for every well-formed date-only value and every clock value (both orders, with the connector rule) the real composition rules return exactly "
                    "(date's year/month/day, clock's hour/minute); the day is never moved and the clock part never dropped. Connector words and cross-token extension: E2 lemmas.",
        outside=["ranking of the glued reading against partial readings under the shipped model", "TOK-EXT-DAY / CONNECT token lemmas (E2)"])
