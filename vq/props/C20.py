"""C20 — date part and clock part compose."""
from ..core import finish, fn_id
from ..e1 import Job, run_jobs

H = "vq.harness.h_compose"


def jobs(tier):
    from ..harness.common import body
    out = []

    def J(name, fn, rules, bounds, lift=None, timeout=600):
        out.append(Job("C20." + name, H, fn, timeout=timeout, bounds=bounds, functions=[fn_id(body(r)) for r in rules], lift=lift, site=rules[0]))
    J("date+clock", "ob_datetod", ["ruleDateTOD", "ruleTODDate"], "every valid date 1880..2109 x hour x optional minute x both orders", "lift_datetod")
    J("date+part-of-day", "ob_datepod", ["ruleDatePOD", "rulePODDate"], "every valid date x 6 parts of day x both orders", "lift_datepod")
    J("dayname+date", "ob_dowdate", ["ruleDOWDate", "ruleDateDOW"], "every valid date x weekday x optional part of day x both orders")
    J("absorb-connector", "ob_absorb", ["ruleAbsorbOnTime"], "'at/um/am/on <time>': 5 shapes of the time value, all fields symbolic; value and span of the argument unchanged")
    return out


def run(tier, t0, only=None):
    js = [j for j in jobs(tier) if not only or only in j.name]
    res = run_jobs(js)
    return finish(
        "C20", tier, res, t0,
        assumptions=["the day part alone resolves to the date value handed to the composition rule (C03-C05 contracts)", "arguments well formed (C02)"],
        explanation="COMPOSE: for every well-formed date-only value and every clock value (both orders, with the connector rule) the real composition rules return exactly "
                    "(date's year/month/day, clock's hour/minute); the day is never moved and the clock part never dropped. Connector words and cross-token extension: E2 lemmas.",
        outside=["ranking of the glued reading against partial readings under the shipped model", "TOK-EXT-DAY / CONNECT token lemmas (E2)"])
