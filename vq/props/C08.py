"""C08 — durations keep amount and unit; 'X for N units' ends exactly N units later."""
from ..core import finish, fn_id
from ..e1 import Job, run_jobs

H = "vq.harness.h_dur"
UN = ["minutes", "hours", "days", "nights", "weeks", "months"]


def jobs(tier):
    from ..harness.common import body
    out = []
    gs = ["regex groups as stub: amount group denotes a symbolic integer, unit / number-word groups by presence index (token lemmas: E2)"]
    out.append(Job("C08.ruleDigitDuration", H, "ob_digit", timeout=200, bounds="N 0..10^9, unit group by index", functions=[fn_id(body("ruleDigitDuration"))], lift="lift_digit", stubs=gs, site="ruleDigitDuration"))
    out.append(Job("C08.ruleNamedNumberDuration", H, "ob_named", timeout=400, bounds="number-word group n_1..n_31 by index x unit group", functions=[fn_id(body("ruleNamedNumberDuration"))], lift="lift_named", stubs=gs, site="ruleNamedNumberDuration"))
    out.append(Job("C08.ruleDurationHalf", H, "ob_half", timeout=100, bounds="unit group by index", functions=[fn_id(body("ruleDurationHalf"))], lift="lift_half", stubs=gs, site="ruleDurationHalf"))
    cells = [(2024, 2), (2023, 1)] if tier == "quick" else [(2023, 1), (2023, 2), (2023, 12), (2024, 1), (2024, 2), (2024, 12), (2027, 2), (2028, 2)]
    maxn = {"quick": 40, "thorough": 120}[tier]
    for (y, m) in cells:
        for ui in range(6):
            n = maxn if ui != 5 else (13 if tier == "quick" else 24)     # months: N <= 60 was not confirmed in 500 s (year roll-over on symbolic month counts)
            out.append(Job("C08.ruleTimeDuration[{}-{:02d}/{}]".format(y, m, UN[ui]), H, "ob_timeduration", timeout=500 if tier == "quick" else 1200,
                           env={"VQ_Y": str(y), "VQ_M": str(m), "VQ_UNIT": str(ui), "VQ_MAXN": str(n)},
                           bounds="start: every day of {}-{:02d}, hour None|0..23, minute None|0..59; N 0..{} {}".format(y, m, n, UN[ui]),
                           functions=[fn_id(body("ruleTimeDuration")), "dateutil.relativedelta (real)"], lift="lift_timeduration", site="ruleTimeDuration"))
        out.append(Job("C08.ruleDurationInterval[{}-{:02d}]".format(y, m), H, "ob_durationinterval", timeout=500,
                       env={"VQ_Y": str(y), "VQ_M": str(m)},
                       bounds="range start in {}-{:02d}, end any later date of the year; N 0..400 days/nights; all three rule variants".format(y, m),
                       functions=[fn_id(body("ruleDurationInterval")), fn_id(body("ruleIntervalDuration")), fn_id(body("ruleIntervalConjDuration"))],
                       lift="lift_durationinterval", site="ruleDurationInterval"))
    return out


def tok_lemmas():
    from .. import toklemmas as T, e2
    from ..spec import words as W
    import sys
    from datetime import datetime
    import ctparse.ctparse  # noqa
    C = sys.modules["ctparse.ctparse"]

    def api(k):
        def f(word):
            text = "%s tage" % word
            p = C.ctparse(text, ts=datetime(2018, 3, 7, 12, 43), timeout=0)
            ok = p.resolution is not None and str(p.resolution) == "%d days" % k
            return {"api_reproduced": not ok, "text": text, "expected": "%d days" % k, "observed": str(p.resolution)}
        return f
    out = [e2.validate(200)]
    for k in range(1, 32):
        out.append(T.word_in_group("C08", 138, "n_%d" % k, W.NUM_EN[k - 1], str(k), api(k)))
        out.append(T.word_in_group("C08", 138, "n_%d" % k, W.NUM_DE[k - 1], str(k), api(k)))
        for alt in W.NUM_DE_ALT.get(k, []):
            out.append(T.word_in_group("C08", 138, "n_%d" % k, alt, str(k), api(k)))
    for unit, ws in W.UNITS.items():
        for w in ws:
            out.append(T.word_in_group("C08", 138, "d_" + unit, w, unit))
            out.append(T.word_in_group("C08", 137, "d_" + unit, w, unit))
    # the amount group accepts every decimal numeral (N is not truncated)
    import z3
    from ..rx.z3re import X, query, DIG
    from ..core import Result, HOLDS, VIOLATED, INCONCLUSIVE
    pats, _ = e2.patterns()
    x = X()
    r, dt, ms = query([z3.InRe(x, z3.Plus(DIG)), z3.Length(x) <= 12, z3.Not(z3.InRe(x, pats[137].groups["num"]))], 60000) if 137 in pats and "num" in pats[137].groups else ("unknown", 0, None)
    res = Result("C08.TOK-VAL[137:num = every numeral]", "z3", INCONCLUSIVE, seconds=dt, bounds="every digit string of length <= 12 is in the language of the amount group", functions=["pattern 137 group num"])
    if r == "unsat":
        res.verdict, res.detail = HOLDS, "digits+ (<= 12 digits) included in L(num)"
    elif r == "sat":
        a = api(int(ms))(ms)
        text = "%s days" % ms
        p_ = C.ctparse(text, ts=datetime(2018, 3, 7, 12, 43), timeout=0)
        bad = str(p_.resolution) != "%d days" % int(ms)
        res.cex = {"numeral": ms}
        res.replay = {"text": text, "observed": str(p_.resolution), "api_reproduced": bad}
        res.verdict = VIOLATED if bad else INCONCLUSIVE
        res.detail = "%r is not capturable as an amount: %r -> %s" % (ms, text, p_.resolution)
    else:
        res.detail = r
    out.append(res)
    out.append(T.groups_disjoint("C08", 138, ["n_%d" % k for k in range(1, 32)]))
    out.append(T.groups_disjoint("C08", 138, ["d_" + u for u in W.UNITS]))
    return out


def run(tier, t0, only=None):
    js = [j for j in jobs(tier) if not only or only in j.name]
    res = run_jobs(js)
    res += [r for r in tok_lemmas() if not only or only in r.name]
    return finish(
        "C08", tier, res, t0,
        assumptions=["token lemmas: the amount group denotes N, exactly one n_k / unit group participates (E2)", "CrossHair's datetime model"],
        explanation="Contracts of the duration rules (digits, number words, half), of 'X for N units' (end = start + N units as a relation on day numbers / calendar month "
                    "addition with clipping, computed independently of dateutil) and of the three 'N days <range>' rules (accepted iff the range is N days long).",
        outside=["N above the tier's bound", "units other than days/nights in 'N units <range>' (no claim in the property)", "number-word spelling (E2 TOK-VAL)"])
