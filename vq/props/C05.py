"""C05 — absolute dates/times mean what they say, independent of the reference time."""
from ..core import finish, fn_id
from ..e1 import Job, run_jobs

H = "vq.harness.h_compose"


def jobs(tier):
    from ..harness.common import body
    out = []
    gs = ["regex groups as stub: day/month/year groups denote symbolic integers inside the ranges of their languages; month names by group index"]

    def J(name, fn, rules, bounds, lift=None, timeout=600):
        out.append(Job("C05." + name, H, fn, timeout=timeout, bounds=bounds, functions=[fn_id(body(r)) for r in rules], lift=lift, site=rules[0], stubs=gs))
    J("ruleDDMMYYYY", "ob_ddmmyyyy", ["ruleDDMMYYYY"], "day 1..31, month 1..12 numeric or named, year 00..99 | 1900..2029", "lift_ddmmyyyy")
    J("ruleDDMM/MMDD", "ob_ddmm", ["ruleDDMM", "ruleMMDD"], "day 1..31, month numeric or named, both orders", "lift_ddmm")
    J("ordinals+month-names", "ob_simple", ["ruleDOM1", "ruleDOM2", "ruleMonthOrdinal", "ruleNamedMonth"], "value 1..31 / 1..12")
    J("ruleYear", "ob_year", ["ruleYear"], "reference year 1970..2100 x written year 00..99 | 1900..2029 (two-digit window)", "lift_year")
    J("day+month", "ob_dommonth", ["ruleDOMMonth", "ruleDOMMonth2", "ruleMonthDOM"], "day 1..31 x month 1..12 x three rules", "lift_dommonth")
    J("ruleDOYYear", "ob_doyyear", ["ruleDOYYear"], "day+month incl. 29 Feb x year 1880..2109", "lift_doyyear")
    J("date+clock", "ob_datetod", ["ruleDateTOD", "ruleTODDate"], "every valid date 1880..2109 x hour x optional minute x both orders", "lift_datetod")
    J("TS-INDEP", "ob_tsindep", ["ruleDDMMYYYY", "ruleDOMMonth", "ruleDOYYear", "ruleDateTOD"],
      "two reference times (year 1970..2100, month, day <= 28, hour symbolic) x date 1900..2029 (day <= 28) x clock: equal results", timeout=900)
    import sys
    import ctparse.ctparse  # noqa
    CC = sys.modules["ctparse.ctparse"]
    ygroups = [None] if tier == "quick" else ["1990,1999", "2000,2009", "2016,2020", "2024,2029"]
    for yg in ygroups:
        env = {"VQ_WIDE": "0"} if yg is None else {"VQ_WIDE": "1", "VQ_YEARS": yg}
        out.append(Job("C05.NOTATIONS-API" + ("" if yg is None else "[%s]" % yg), "vq.harness.h_api2", "ob_date", timeout=7200, path_timeout=600, env=env,
                       bounds=("3 days x 3 months x 2 years (2000/2029) with clock 09:30, plus 12.03.2000 with 6 more clock times; reference times: two fixed ones and one 10 hours before the written instant; with ' hh:mm' and ' at hh:mm'" if yg is None else "12 days x 12 months x years {} with clock 09:30, plus 12.03 of the first year with 24 hours x 4 minutes".format(yg)) +
                              "; every notation (numeric ./-//, dd.mm.yy, day + month name + year EN/DE) x 3 reference times resolves to that date (and time); stand-alone years readable as hh:mm are excluded for month-name notations",
                       functions=[fn_id(CC.ctparse)], stubs=["parser untraced; pool indices symbolic (solver covers every combination)"], site="ctparse"))
    return out


def tok_lemmas():
    from .. import toklemmas as T, e2
    from ..spec import words as W
    out = [e2.validate(200)]
    groups = ["january", "february", "march", "april", "may", "june", "july", "august", "september", "october", "november", "december"]
    for k, g in enumerate(groups):
        out.append(T.word_in_group("C05", 103, g, W.MONTHS_EN[k], "month %d" % (k + 1)))
        out.append(T.word_in_group("C05", 103, g, W.MONTHS_DE[k], "month %d" % (k + 1)))
    out.append(T.groups_disjoint("C05", 103, groups))
    for pid in (108, 110, 124, 125, 126):
        out.append(T.numeric_range("C05", pid, "day", 1, 31))
    for pid in (109, 124, 125, 126):
        out.append(T.numeric_range("C05", pid, "month", 1, 12))
    return out


def run(tier, t0, only=None):
    js = [j for j in jobs(tier) if not only or only in j.name]
    res = run_jobs(js)
    res += [r for r in tok_lemmas() if not only or only in r.name]
    return finish(
        "C05", tier, res, t0,
        assumptions=["token lemmas TOK-VAL / TOK-UNAMB: group texts denote the integers the notation spells (E2)", "dd.mm.yy means 2000+yy (the code's convention, kept)"],
        explanation="Contracts of every rule on the path of a fully specified date: output fields equal the written ones, impossible dates rejected, two-digit-year window "
                    "characterised exactly; TS-INDEP: with two symbolic reference times the chain DDMMYYYY / DOM+Month+Year / Date+Clock gives identical results.",
        outside=["ranking against competing readings; engine's choice among matches", "notation equivalence at token level (E2)"])
