"""C11 — separators, brackets, dash variants and letter case never change the result."""
import z3

from ..core import finish, fn_id, Result, HOLDS, VIOLATED, INCONCLUSIVE
from ..e1 import Job, run_jobs
from .. import e2, e3
from ..rx.z3re import X, query, MK

HA = "vq.harness.h_api"


def tok_case(tier):
    """TOK-CASE: every pattern is compiled case-insensitively (structural, from the live pattern
    text) and a z3 witness of its language stays in the language and is matched by the real engine
    in lower, upper and title case"""
    pats, errors = e2.patterns()
    out = []
    x = X()
    for pid, p in sorted(pats.items()):
        # prefer a witness that contains a non-ASCII letter (case folding beyond ASCII is part of the property)
        from ..rx.z3re import SIG
        nonascii = z3.Concat(SIG, z3.Range("\u00c0", "\u024f"), SIG)
        r, dt, ms = query([z3.InRe(x, z3.Intersect(p.plain, nonascii)), z3.Length(x) >= 1, z3.Length(x) <= 14])
        if r != "sat":
            r, dt, ms = query([z3.InRe(x, p.plain), z3.Length(x) >= 1, z3.Length(x) <= 12])
        res = Result("C11.TOK-CASE[{}]".format(pid), "z3", INCONCLUSIVE, seconds=dt, bounds="pattern {}: (?i) flag before the rule group; one z3 witness in three case variants".format(pid),
                     functions=["pattern %d" % pid])
        if not p.ci:
            res.verdict, res.detail = VIOLATED, "pattern is not compiled case-insensitively (no (?i) before the rule group)"
            res.replay = {"kernel": "reproduced", "pattern": p.text[-60:]}
        elif r == "sat" and ms is not None:
            bad = []
            rr = e2.real_regex()[pid]
            for v in (ms.lower(), ms.upper(), ms.title()):
                if len(v) != len(ms):
                    continue          # case mappings that change the length are outside the claim
                r2, _, _ = query([x == z3.StringVal(v), z3.InRe(x, p.plain)], 20000, False)
                if r2 != "sat":
                    bad.append(v)
            # the real compiled pattern must match each case variant wherever it matches the witness
            key = "R%d" % pid
            def spans(t):
                return {m.span(key) for m in rr.finditer(t, overlapped=True)}
            engine_bad = [v for v in (ms.lower(), ms.upper(), ms.title()) if len(v) == len(ms) and (0, len(ms)) in spans(ms) and (0, len(v)) not in spans(v)]
            if engine_bad:
                res.verdict = VIOLATED
                res.cex = {"witness": ms, "variants_not_matched": engine_bad}
                res.replay = {"kernel": "reproduced", "engine": "real compiled pattern"}
                res.detail = "the compiled pattern matches %r but not its case variant(s) %r" % (ms, engine_bad)
            else:
                res.verdict = HOLDS if not bad else INCONCLUSIVE
                res.detail = "witness %r closed under case (translation and real engine)" % ms if not bad else "case variants outside the translated language: %r" % bad
        else:
            res.detail = "no witness: " + r
        out.append(res)
    return out


def jobs(tier):
    import sys
    import ctparse.ctparse  # noqa
    C = sys.modules["ctparse.ctparse"]
    from ..harness.common import TR
    nsep, ndash = (7, 3) if tier == "quick" else (12, 6)
    return [Job("C11.NORM-API", HA, "ob_norm", timeout=3600, path_timeout=120, env={"VQ_NSEP11": str(nsep), "VQ_NDASH11": str(ndash)},
                bounds="10 expressions x {} separator strings (comma, bracket, tab, NBSP, blank run, ...) x {} dash variants x lower/upper/title case x with/without leading+trailing separators: same resolution; normalisation idempotent".format(nsep, ndash),
                functions=[fn_id(C.ctparse), fn_id(C._preprocess_string)], stubs=["parser runs untraced; pool indices symbolic"], site="_preprocess_string"),
            Job("C11.CASE-RULE", "vq.harness.h_clock", "ob_ampm", timeout=600, bounds="the only rule code reading match text (_maybe_apply_am_pm): tails in both cases by symbolic index",
                functions=[fn_id(TR._maybe_apply_am_pm)], site="_maybe_apply_am_pm")]


def run(tier, t0, only=None):
    res = e3.preprocess_lemmas(tier) + tok_case(tier)
    if only:
        res = [r for r in res if only in r.name]
    js = [j for j in jobs(tier) if not only or only in j.name]
    res += run_jobs(js)
    return finish(
        "C11", tier, res, t0,
        assumptions=["leftmost-greedy matching of a single-class '+' pattern is maximal-run scanning (shape checked from the AST on every run)",
                     "class tables are read from the real compiled classes once per run (2 x 1.1M calls): a precomputed static table"],
        explanation="E3: the real _preprocess_string (sub/strip/sub/strip, read from its AST) encoded as a transducer over N symbolic code points with class membership abstracted to predicates "
                    "tied to the real tables by FACT queries: idempotence, clean output, separator-run = one blank, dash variants = '-'; CLASS-AGREE: compiled classes vs. Unicode-category "
                    "specification over a symbolic code point; TOK-CASE for all 41 patterns; NORM-API differential over symbolic pool indices.",
        outside=["characters whose case mapping changes length", "strings longer than the bound", "code points unassigned in the interpreter's Unicode database"])
