"""C17 — training data are truthful; duplicating a positive example never lowers its score."""
import time
from fractions import Fraction

import z3

from ..core import finish, fn_id, Result, HOLDS, VIOLATED, INCONCLUSIVE
from ..e1 import Job, run_jobs

HN = "vq.harness.h_nb"


class L:
    """formal sum of integer multiples of logs: {z3 term (as sexpr key): (term, exponent)}"""

    def __init__(self, d=None):
        self.d = d or {}

    @staticmethod
    def log(x):
        if isinstance(x, float):
            fr = Fraction(x).limit_denominator(10 ** 6)
            x = z3.RealVal(fr.numerator) / z3.RealVal(fr.denominator)
        elif isinstance(x, int):
            x = z3.RealVal(x)
        elif isinstance(x, N):
            x = x.t
        x = z3.simplify(x)
        return L({x.sexpr(): (x, 1)})

    def _merge(self, o, sign):
        d = dict(self.d)
        for k, (t, e) in o.d.items():
            if k in d:
                d[k] = (t, d[k][1] + sign * e)
            else:
                d[k] = (t, sign * e)
        return L(d)

    def __add__(self, o):
        return self._merge(o, 1) if isinstance(o, L) else self
    __radd__ = __add__

    def __sub__(self, o):
        return self._merge(o, -1)

    def __mul__(self, k):
        assert isinstance(k, int)
        return L({key: (t, e * k) for key, (t, e) in self.d.items()})
    __rmul__ = __mul__


class N:
    """count backed by a z3 Real term (sums only)"""

    def __init__(self, t):
        self.t = t if z3.is_expr(t) else z3.RealVal(t)

    def __add__(self, o):
        return N(self.t + (o.t if isinstance(o, N) else z3.RealVal(o)))
    __radd__ = __add__


def mono(ks, P, Nn, timeout_ms=120000):
    """ks: multiplicities of the distinct n-gram features of the duplicated positive trace"""
    import ctparse.nb_estimator as NB
    from math import log as mlog, exp as mexp
    t0 = time.time()
    k = len(ks)
    V = k + 1                                  # + one feature standing for all other n-grams
    c = [z3.Real("c%d" % i) for i in range(V)]  # positive-class totals (the example is already in)
    d = [z3.Real("d%d" % i) for i in range(V)]  # negative-class totals
    assume = [c[i] >= ks[i] for i in range(k)] + [c[k] >= 0] + [x >= 0 for x in d]
    NB.log = L.log
    try:
        def fit(extra):
            X = [{i: N(c[i] + (extra * ks[i] if i < k else 0)) for i in range(V)}, {i: N(d[i]) for i in range(V)}]
            ll = NB.MultinomialNaiveBayes._construct_log_likelihood(X, [1, -1], 1.0)
            y = [1] * (P + extra) + [-1] * Nn
            pr = NB.MultinomialNaiveBayes._construct_log_class_prior(y)
            odds = pr[1] - pr[0]
            for i in range(k):
                odds = odds + ks[i] * (ll["positive_class"][i] - ll["negative_class"][i])
            return odds
        before, after = fit(0), fit(1)
    finally:
        NB.log = mlog
        NB.exp = mexp
    diff = after - before                      # must be >= 0:  prod t^e >= 1
    num, den = z3.RealVal(1), z3.RealVal(1)
    for key, (t, e) in diff.d.items():
        for _ in range(abs(e)):
            if e > 0:
                num = num * t
            else:
                den = den * t
    s = z3.Solver()
    s.set("timeout", timeout_ms)
    s.add(*assume)
    s.add(num < den)
    r = str(s.check())
    name = "C17.MONO[ks={},pos={},neg={}]".format(ks, P, Nn)
    res = Result(name, "z3", INCONCLUSIVE, seconds=time.time() - t0,
                 bounds="positive trace with {} distinct n-gram features of multiplicities {}, one aggregate 'other' feature; class totals arbitrary non-negative reals; {} positive / {} negative documents before duplication".format(k, ks, P, Nn),
                 functions=[fn_id(NB.MultinomialNaiveBayes._construct_log_likelihood), fn_id(NB.MultinomialNaiveBayes._construct_log_class_prior)])
    if r == "unsat":
        res.verdict, res.detail = HOLDS, "unsat: log-odds after duplication >= before (polynomial form, nlsat)"
    elif r == "sat":
        m = s.model()
        res.verdict = VIOLATED
        res.cex = {"model": {str(x): str(m[x]) for x in m.decls()}}
        res.detail = "sat: " + str(res.cex["model"])[:300]
        res = _replay_mono(res, ks, P, Nn, m, c, d)
    else:
        res.detail = "z3 answered " + r
    return res


def _replay_mono(res, ks, P, Nn, m, c, d):
    """replay on the real estimator with concrete integer counts near the model's values"""
    import math
    import ctparse.nb_estimator as NB
    def val(x):
        v = m.eval(x, model_completion=True)
        try:
            return int(math.floor(float(v.as_fraction()) + 1e-9))
        except Exception:
            return 0
    k = len(ks)
    cv = [max(val(x), ks[i] if i < k else 0) for i, x in enumerate(c)]
    dv = [max(val(x), 0) for x in d]
    def odds(extra):
        X = [{i: cv[i] + (extra * ks[i] if i < k else 0) for i in range(k + 1)}, {i: dv[i] for i in range(k + 1)}]
        ll = NB.MultinomialNaiveBayes._construct_log_likelihood(X, [1, -1], 1.0)
        pr = NB.MultinomialNaiveBayes._construct_log_class_prior([1] * (P + extra) + [-1] * Nn)
        return pr[1] - pr[0] + sum(ks[i] * (ll["positive_class"][i] - ll["negative_class"][i]) for i in range(k))
    b, a = odds(0), odds(1)
    res.replay = {"kernel": "reproduced" if a < b - 1e-12 else "not-reproduced", "before": b, "after": a, "counts_pos": cv, "counts_neg": dv}
    if a >= b - 1e-12:
        res.verdict = INCONCLUSIVE
        res.detail = "z3 model (real-valued counts) does not reproduce with integer counts on the real estimator"
    return res


def jobs(tier):
    import ctparse.corpus as CO
    from ctparse.nb_scorer import train_naive_bayes
    from ctparse.pipeline import CTParsePipeline
    return [Job("C17.FIT-DUPLICATION", HN, "ob_fit", timeout=3600, path_timeout=120, env={"VQ_NDOCS": "3" if tier == "quick" else "4"},
                bounds="training sets of 2..{} documents drawn from 6 token sequences over 2 symbols with every labelling (both classes present): trained log-odds = textbook NB; "
                       "appending a copy of a positive example never lowers its log-odds (float tolerance 1e-12)".format(3 if tier == "quick" else 4),
                functions=[fn_id(train_naive_bayes), fn_id(CTParsePipeline.fit), fn_id(CTParsePipeline.predict_log_proba)],
                stubs=["code untraced; corpus indices and labels symbolic (solver covers every combination)"], site="train_naive_bayes"),
            Job("C17.DATASET", HN, "ob_dataset", timeout=1800, path_timeout=60,
                bounds="stream of 0..2 candidates (4 resolution values of all three kinds, production length 1..3, candidate spans always different from the gold's; indices symbolic, builder untraced), optional leading None; one or two entries with the same text and different reference times (scripted parser depends on ts); gold by index",
                functions=[fn_id(CO.make_partial_rule_dataset)], stubs=["ctparse_gen replaced by a scripted stream"], site="make_partial_rule_dataset"),
            Job("C17.DATASET-PARTIAL", HN, "ob_dataset_partial", timeout=1800, path_timeout=60,
                bounds="as DATASET, with the 4 resolution values 8:30, 2020-02-29 8:30, 8:00-9:00, open-9:00: candidate and gold differ only in fields that one of them leaves out, in both directions (a candidate that is the gold with fields missing, or with fields added, is a negative sample)",
                functions=[fn_id(CO.make_partial_rule_dataset)], stubs=["ctparse_gen replaced by a scripted stream"], site="make_partial_rule_dataset")]


def run(tier, t0, only=None):
    res = []
    shapes = [((1,), 1, 1), ((2,), 1, 1), ((1, 1), 2, 1), ((2, 1), 1, 2)] if tier == "quick" else \
        [((1,), 1, 1), ((2,), 1, 1), ((3,), 2, 1), ((1, 1), 2, 1), ((2, 1), 1, 2), ((3, 1), 1, 1)]   # (1,1,1), (2,2), (2,1,1): nlsat answers unknown in 120 s -> outside the claim
    for ks, P, Nn in shapes:
        res.append(mono(ks, P, Nn))
    if only:
        res = [r for r in res if only in r.name]
    js = [j for j in jobs(tier) if not only or only in j.name]
    res += run_jobs(js)
    return finish(
        "C17", tier, res, t0,
        assumptions=["value equality of resolutions is by value (C18)", "log is monotone and log(ab) = log a + log b (the log-of-product normal form used for MONO)",
                     "prediction log-odds = joint log-odds (C16 PREDICT-ODDS)"],
        explanation="DATASET (CrossHair): make_partial_rule_dataset over a scripted candidate stream emits exactly one sample per prefix of each production, all labelled by value equality "
                    "with the gold annotation regardless of spans. MONO (E4, z3 nlsat): the real likelihood / prior constructors are executed on symbolic class totals with log in "
                    "log-of-product normal form; after appending a copy of a positive trace its log-odds is >= before (polynomial inequality).",
        outside=["traces with three distinct n-gram features or two repeated ones in MONO (nlsat answers unknown within 120 s; covered only through FIT-DUPLICATION on small corpora)", "run_corpus (string comparison of nb_str; raises on corpus failure)", "the shipped corpus"])
