"""C06 — every clock notation of one time of day resolves to that hour and minute."""
from ..core import finish, fn_id
from ..e1 import Job, run_jobs
from .cells import cells

H = "vq.harness.h_clock"


def jobs(tier):
    from ..harness.common import body, TR, PL, CT
    out = []
    def J(name, fn, funcs, bounds, lift=None, timeout=200, env=None, site="", stubs=None):
        out.append(Job("C06." + name, H, fn, env=env or {}, timeout=timeout, bounds=bounds, functions=funcs,
                       lift=lift, site=site, stubs=stubs or []))
    gs = ["regex match replaced by a group stub: numeric groups are symbolic integers within the ranges of the token lemmas (hour 0..23, minute 0..59), tails drawn by symbolic index from the spellings of `\\s*[ap]\\.?m\\.?`"]
    hm = "hour 0..23, minute None|0..59 symbolic; am/pm tail by symbolic index over 13 spellings"
    J("ampm", "ob_ampm", [fn_id(TR._maybe_apply_am_pm)], hm, lift="lift_ampm", site="_maybe_apply_am_pm")
    J("ruleHHMM", "ob_hhmm", [fn_id(body("ruleHHMM")), fn_id(TR._maybe_apply_am_pm)], hm, lift="lift_hhmm", site="ruleHHMM", stubs=gs)
    J("ruleHHMMmilitary", "ob_military", [fn_id(body("ruleHHMMmilitary")), fn_id(TR._maybe_apply_am_pm)],
      "hour, minute, clock-word flag, tail, validity flag symbolic", lift="lift_military", timeout=300, site="ruleHHMMmilitary",
      stubs=gs + ["_is_valid_military_time replaced by a symbolic boolean (its contract: validmil obligations)"])
    mcells = [(2019, 9), (2019, 10), (2020, 5), (2020, 12), (2024, 2), (2059, 11)] if tier == "quick" else \
        [(y, m) for y in list(range(1999, 2061)) + [1970, 2100] for m in (1, 9, 10, 12)]
    for (y, m) in mcells:
        J("validmil[{}-{:02d}]".format(y, m), "ob_validmil", [fn_id(TR._is_valid_military_time), "dateutil.relativedelta (real)"],
          "ts: every minute of {}-{:02d}; hour None|0..23, minute None|0..59".format(y, m), lift="lift_validmil", timeout=300,
          env={"VQ_Y": str(y), "VQ_M": str(m)}, site="_is_valid_military_time")
    J("ruleHHOClock", "ob_oclock", [fn_id(body("ruleHHOClock"))], "hour 0..23", lift="lift_oclock", stubs=gs)
    J("ruleNamedHour", "ob_named", [fn_id(body("ruleNamedHour"))], "named hour group index 1..12", lift="lift_named", stubs=gs)
    J("ruleMidnight", "ob_midnight", [fn_id(body("ruleMidnight"))], "single case", lift="lift_midnight")
    for n, r in (("quarter_before", "ruleQuarterBeforeHH"), ("quarter_after", "ruleQuarterAfterHH"),
                 ("half_before", "ruleHalfBeforeHH"), ("half_after", "ruleHalfAfterHH")):
        J(r, "ob_" + n, [fn_id(body(r))], "hour 0..23, minute None|0..59", lift="lift_" + n, site=r)
    J("ruleTODPOD", "ob_todpod", [fn_id(body("ruleTODPOD"))], "hour 0..23, minute None|0..59, part of day by symbolic index over all table keys", lift="lift_todpod", timeout=400, site="ruleTODPOD")
    J("rulePODTOD", "ob_podtod", [fn_id(body("rulePODTOD")), fn_id(body("ruleTODPOD"))], "as ruleTODPOD", lift="lift_podtod", timeout=400, site="rulePODTOD")
    J("latent-off", "ob_latent_off", [fn_id(CT.ctparse_gen)], "hour, minute symbolic; latent_time symbolic bool",
      stubs=["ctparse.ctparse._ctparse replaced by a one-candidate stream"], site="ctparse_gen")
    for (y, m) in cells(tier, "B"):
        J("latentTOD[{}-{:02d}]".format(y, m), "ob_latent_tod", [fn_id(PL._latent_tod), "dateutil.relativedelta (real)"],
          "ts: every instant of {}-{:02d} (d, h, mi, s symbolic); written hour 0..23, minute None|0..59".format(y, m),
          lift="lift_latent_tod", env={"VQ_Y": str(y), "VQ_M": str(m)}, site="_latent_tod")
    import sys
    import ctparse.ctparse  # noqa
    CC = sys.modules["ctparse.ctparse"]
    chunks = [(0, 24)] if tier == "quick" else [(0, 4), (4, 8), (8, 12), (12, 16), (16, 20), (20, 24)]
    for lo, hi in chunks:
        out.append(Job("C06.NOTATIONS-API[{}..{}]".format(lo, hi - 1), "vq.harness.h_api2", "ob_clock", timeout=3600, path_timeout=300,
                       env={"VQ_WIDE": "0" if tier == "quick" else "1", "VQ_HLO": str(lo), "VQ_HHI": str(hi)},
                       bounds=("8 hours x 4 minutes" if tier == "quick" else "hours {}..{} x 60 minutes".format(lo, hi - 1)) + " x 3 reference times: every notation of the property text (24h, am/pm, Uhr, h, four-digit, o'clock, named hour + part of day, quarter/half) gives that hour and minute with latent_time off; bare clock time with latent_time on = first such time strictly after the reference minute",
                       functions=[fn_id(CC.ctparse)], stubs=["parser untraced; pool indices symbolic (solver covers every combination)"], site="ctparse"))
    return out


def tok_lemmas():
    from .. import toklemmas as T, e2
    from ..spec import words as W
    out = [e2.validate(200)]
    for k in range(1, 13):
        out.append(T.word_in_group("C06", 104, "t_%d" % k, W.HOURS_EN[k - 1], str(k)))
        out.append(T.word_in_group("C06", 104, "t_%d" % k, W.HOURS_DE[k - 1], str(k)))
    out.append(T.groups_disjoint("C06", 104, ["t_%d" % k for k in range(1, 13)]))
    for pid in (127, 128, 129):
        out.append(T.numeric_range("C06", pid, "hour", 0, 23))
    for pid in (127, 128):
        out.append(T.numeric_range("C06", pid, "minute", 0, 59))
    return out


def known_witnesses():
    def bare():
        from datetime import datetime
        import sys
        import ctparse.ctparse  # noqa
        C = sys.modules["ctparse.ctparse"]
        r = C.ctparse("9 in the morning", ts=datetime(2018, 3, 7, 12, 43), timeout=0, latent_time=False).resolution
        ok = getattr(r, "hour", None) == 9 and getattr(r, "day", None) is None
        return None if ok else "'9 in the morning' -> %s" % (r,)
    return {"bare-hour-in-pod": bare}


def run(tier, t0, only=None):
    from ..core import known_lines_for
    js = [j for j in jobs(tier) if not only or only in j.name]
    res = run_jobs(js)
    res += [r for r in tok_lemmas() if not only or only in r.name]
    return finish(
        "C06", tier, res, t0, known_lines=known_lines_for("C06", known_witnesses()),
        assumptions=["group texts denote the integers the stub hands over (token lemmas TOK-VAL, decided by the E2 queries of this property when built)",
                     "CrossHair's datetime model (latent anchoring)"],
        explanation="Exact contracts of every clock rule body (24h, am/pm, military, o'clock, named hours, quarter/half, hour + part of day) and of the "
                    "latent anchoring of a bare clock time, executed symbolically over all hours, minutes, tails, parts of day and reference instants of the cells.",
        outside=["the regex engine's choice among matches and the ranking of the clock reading against competing readings", "reference years outside the cells"])
