"""C07 — ranges are built from their two ends, ordered, and wrap sensibly."""
from ..core import finish, fn_id
from ..e1 import Job, run_jobs
from .cells import cells

H = "vq.harness.h_range"


def jobs(tier):
    from ..harness.common import body, PL
    out = []

    def J(name, fn, rule, bounds, lift=None, timeout=300, env=None):
        fns = [fn_id(body(rule))] if rule in __import__("ctparse.rule", fromlist=["rules"]).rules else [rule]
        out.append(Job("C07." + name, H, fn, env=env or {}, timeout=timeout, bounds=bounds, functions=fns, lift=lift, site=rule))
    dates = "both dates symbolic over all valid calendar dates 1990..2029"
    J("ruleDateDate", "ob_datedate", "ruleDateDate", dates, "lift_datedate", 400)
    J("ruleDOMDate", "ob_domdate", "ruleDOMDate", "day of month 1..31, date 1990..2029", "lift_domdate")
    J("ruleDateDOM", "ob_datedom", "ruleDateDOM", "date 1990..2029, day of month 1..31", "lift_datedom")
    J("ruleDOYDate", "ob_doydate", "ruleDOYDate", "day+month incl. 29 Feb, date 1990..2029", "lift_doydate", 400)
    for y in ([2023, 2024] if tier == "quick" else [2019, 2020, 2023, 2024, 2027, 2028]):
        J("ruleDateTimeDateTime[{}]".format(y), "ob_dtdt", "ruleDateTimeDateTime",
          "two date-times in years {0}/{0}+1: month, day, hour, optional minute symbolic".format(y), "lift_dtdt", 500, {"VQ_Y": str(y)})
    J("ruleTODTOD", "ob_todtod", "ruleTODTOD", "all 24x24 hour pairs x optional minutes", "lift_todtod")
    J("rulePODPOD", "ob_podpod", "rulePODPOD", "5x5 parts of day")
    J("ruleBeforeTime", "ob_before", "ruleBeforeTime", "not-flag x hour", "lift_before")
    J("ruleAfterTime", "ob_after", "ruleAfterTime", "not-flag x hour", "lift_after")
    for (y, m) in ([(2024, 2), (2023, 12)] if tier == "quick" else cells("quick", "B")):
        e = {"VQ_Y": str(y), "VQ_M": str(m)}
        c = "{}-{:02d}".format(y, m)
        J("ruleDateInterval[{}]".format(c), "ob_dateinterval", "ruleDateInterval",
          "date: every day of {}; all 24x24 hour pairs x optional minutes".format(c), "lift_dateinterval", 1200, e)
        for ms in ("11", "00") if tier == "quick" else ("11", "00", "10", "01"):
            for dd in ((-1, -2) if tier == "quick" else (1, 15, -2, -1)):
                e2 = dict(e, VQ_MINSHAPE=ms, VQ_D=str(dd))
                out.append(Job("C07.latent-interval[{}/d{}/{}]".format(c, dd, ms), H, "ob_latent_interval", env=e2, timeout=900,
                               bounds="ts: every instant of one day of {} (day {}; -1 = last); all 24x24 hour pairs; minutes written: {}".format(c, dd, ms),
                               functions=[fn_id(PL._latent_time_interval), "dateutil.relativedelta (real)"], lift="lift_latent_interval", site="_latent_time_interval"))
    import sys
    import ctparse.ctparse  # noqa
    CC = sys.modules["ctparse.ctparse"]
    st = ["parser untraced; pool indices symbolic (solver covers every combination)"]
    out.append(Job("C07.RANGES-API", "vq.harness.h_api2", "ob_ranges", timeout=3600, path_timeout=120,
                   bounds="7x7 hour pairs x 6 joiner forms (-, to, bis, until, between..and, von..bis) x {no date, tomorrow, 12.03.2021, friday}: interval from A to B with the 12 h / next-day wrap (no depth limit); "
                          "for 9:00..17:00 additionally 4 separator variants (blank, tab, newline, double blank) and an earlier parse of an incomplete range",
                   functions=[fn_id(CC.ctparse)], stubs=st, site="ctparse"))
    out.append(Job("C07.OPEN-API", "vq.harness.h_api2", "ob_open", timeout=1800, path_timeout=120,
                   bounds="10 forms (before / until / bis / not before / nicht vor / after / from / ab / not after / nicht nach) x 7 hours x 4 separator variants: half-open interval bounded on the stated side only",
                   functions=[fn_id(CC.ctparse)], stubs=st, site="ctparse"))
    return out


def run(tier, t0, only=None):
    js = [j for j in jobs(tier) if not only or only in j.name]
    res = run_jobs(js)
    return finish(
        "C07", tier, res, t0,
        assumptions=["arguments are well formed (WF, inductive by C02)", "CrossHair's datetime model"],
        explanation="Exact contracts of the range rules (date-date, day-date, date-day, day+month-date, datetime-datetime, clock-clock with the 9-5 rule, "
                    "before/after with negation, date + clock range with the 12 h / next-day wrap, latent anchoring of a clock range): returned interval has the "
                    "written ends, start < end, clock ranges <= 24 h, reversed pairs rejected. All field values symbolic.",
        outside=["joiner vocabulary membership (token lemma, E2)", "ranking of the range reading", "rulePODInterval hour shifting (covered by WF ordering in C02)"])
