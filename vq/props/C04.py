"""C04 — partial dates resolve to the nearest future occurrence, written fields preserved."""
from ..core import finish, fn_id
from ..e1 import Job, run_jobs
from .cells import cells, years

H = "vq.harness.h_latent"


def jobs(tier):
    from ..harness.common import body, NPODS
    out = []
    rd = "dateutil.relativedelta (real, executed symbolically)"
    for (y, m) in cells(tier, "B"):
        e = {"VQ_Y": str(y), "VQ_M": str(m)}
        c = "{}-{:02d}".format(y, m)
        out.append(Job("C04.latentDOM[{}]".format(c), H, "ob_latentdom_c", env=e, timeout=200,
                       bounds="ts: every instant of {} (d, h, mi, s symbolic); day of month 1..31".format(c),
                       functions=[fn_id(body("ruleLatentDOM")), rd], lift="lift_latentdom_c", site="ruleLatentDOM"))
        out.append(Job("C04.latentDOY[{}]".format(c), H, "ob_latentdoy_c", env=e, timeout=300,
                       bounds="ts: every instant of {}; every (day, month) pair except 29 Feb".format(c),
                       functions=[fn_id(body("ruleLatentDOY")), rd], lift="lift_latentdoy_c", site="ruleLatentDOY"))
        out.append(Job("C04.latentDOY-29Feb[{}]".format(c), H, "ob_latentdoy_feb29_c", env=e, timeout=200,
                       bounds="ts: every instant of {}; written date 29 Feb".format(c),
                       functions=[fn_id(body("ruleLatentDOY")), rd], lift="lift_latentdoy_feb29_c", site="ruleLatentDOY"))
    for y in years(tier):
        e = {"VQ_Y": str(y)}
        out.append(Job("C04.latentPOD-symhour[{}]".format(y), H, "ob_latentpod_symhour", env=e, timeout=400,
                       bounds="ts: every instant of {}; start hour of the part of day symbolic 0..23".format(y),
                       functions=[fn_id(body("ruleLatentPOD")), rd],
                       stubs=["ctparse.time.rules.pod_hours replaced by a one-entry table with symbolic hours"], site="ruleLatentPOD"))
    out.append(Job("C04.podtable", H, "ob_podtable", timeout=120, bounds="all {} entries of pod_hours (index symbolic)".format(NPODS),
                   functions=["ctparse.types.pod_hours (live table)"]))
    # concrete parts of day through the real table (no stub)
    from ..harness.common import PODS
    picks = [PODS.index(p) for p in ("morning", "night", "last", "first")] if tier == "quick" else list(range(NPODS))
    ys = [2024]
    for y in ys:
        for pi in picks:
            out.append(Job("C04.latentPOD[{}:{}]".format(y, PODS[pi]), H, "ob_latentpod",
                           env={"VQ_Y": str(y), "VQ_PLO": str(pi), "VQ_PHI": str(pi + 1)}, timeout=400,
                           bounds="ts: every instant of {}; part of day '{}' through the real table".format(y, PODS[pi]),
                           functions=[fn_id(body("ruleLatentPOD")), rd], lift="lift_latentpod", site="ruleLatentPOD"))
    for (y, m) in cells(tier, "C"):
        out.append(Job("C04.latentDOW[{}-{:02d}]".format(y, m), "vq.harness.h_rel", "ob_latentdow",
                       env={"VQ_Y": str(y), "VQ_M": str(m)}, timeout=200,
                       bounds="ts: every instant of {}-{:02d}; weekday 0..6".format(y, m),
                       functions=[fn_id(body("ruleLatentDOW")), rd], lift="lift_latentdow", site="ruleLatentDOW"))
    return out


def run(tier, t0, only=None):
    js = [j for j in jobs(tier) if not only or only in j.name]
    res = run_jobs(js)
    return finish(
        "C04", tier, res, t0,
        assumptions=["CrossHair's symbolic datetime model agrees with CPython's datetime (counterexamples are replayed concretely)",
                     "ranking and tokenisation connect the surface form to the latent rule (exercised in replay only)"],
        explanation="ruleLatentDOW/DOM/DOY/POD are executed symbolically with the real dateutil arithmetic and compared with the exact nearest "
                    "matching future date computed by independent integer calendar arithmetic (which implies: not before the reference date, nothing "
                    "matching strictly in between, written weekday/day/month preserved). Year (x month for weekdays) is a concrete case split.",
        outside=["ruleDOWDOM (weekday + day of month): dateutil.rrule cannot be executed symbolically (CrossHair modelling error in datetime.combine), clause not covered",
                 "reference years outside the case-split cells of this tier", "ranking under the shipped model"])
