"""C15 — the search yields exactly what the rules license (sound, complete, pure)."""
from ..core import finish, fn_id
from ..e1 import Job, run_jobs
from ..wfrun import run_wf

H = "vq.harness.h_search"
STUBS = ["tokenizer stub returning genuine RegexMatch objects", "toy registry (4 rules) built with the real regex_match/dimension constructors and wrapper logic",
         "scores wrapped in an object with constant __format__", "Artifact.__hash__ untraced"]


def search_jobs(prop, tier):
    import sys
    import ctparse.ctparse  # noqa
    C = sys.modules["ctparse.ctparse"]
    PP = sys.modules["ctparse.partial_parse"]
    out = []
    nmax = 4 if tier == "quick" else 5
    out.append(Job(prop + ".STACK-GRAPH", H, "ob_stack_graph", env={"VQ_NMAX": str(nmax)}, timeout=900,
                   bounds="n <= {} matches, every adjacency table (symbolic boolean matrix through the separator stub)".format(nmax),
                   functions=[fn_id(C._regex_stack)], stubs=["`regex.compile(r'\\s*')` answers from a symbolic boolean table"], site="_regex_stack"))
    for ti in ((0, 1, 3) if tier == "quick" else range(5)):
        out.append(Job("{}.STACK-ADJ[text{}]".format(prop, ti), H, "ob_stack_adj", env={"VQ_TI": str(ti)}, timeout=900, bounds="two matches with symbolic spans over one concrete 6-char text (5 texts with different blanks)",
                       functions=[fn_id(C._regex_stack)], stubs=["`\\s*` fullmatch modelled by str.strip"], site="_regex_stack"))
    out.append(Job(prop + ".WINDOW", H, "ob_window", timeout=900, bounds="sequences <= 4, rule patterns <= 3, predicate outcomes a symbolic boolean table",
                   functions=[fn_id(C._match_rule)], site="_match_rule"))
    out.append(Job(prop + ".PREFILTER", H, "ob_prefilter", timeout=900, bounds="sequences <= 4 over two pattern ids, rule patterns <= 3 elements",
                   functions=[fn_id(PP._seq_match)], site="_seq_match"))
    out.append(Job(prop + ".PREFILTER-HIST", H, "ob_filter_hist", timeout=900, bounds="two initial sequences of 3 matches over two pattern ids analysed one after the other (6-rule toy registry): the second analysis equals a fresh one and keeps every embeddable rule",
                   functions=[fn_id(PP.PartialParse.from_regex_matches), fn_id(PP.PartialParse._filter_rules)], site="from_regex_matches"))
    out.append(Job(prop + ".APPLY", H, "ob_apply", timeout=600, bounds="prod <= 4 elements, every window, rule result None | value",
                   functions=[fn_id(PP.PartialParse.apply_rule), fn_id(PP.PartialParse.__init__)], site="apply_rule"))
    out.append(Job(prop + ".COVER", H, "ob_cover", timeout=600, bounds="3 matches over 3 texts with different gaps, relative_match_len in {1.0, 0.5}",
                   functions=[fn_id(C._ctparse)], stubs=STUBS, site="_ctparse"))
    depths = [0, 1, 10]
    for d in depths:
        nsym, smax = (3, 1) if tier == "quick" else (4, 1)
        out.append(Job("{}.STREAM[depth={}]".format(prop, d), H, "ob_stream", env={"VQ_DEPTH": str(d), "VQ_NSYM": str(nsym), "VQ_SMAX": str(smax)}, timeout=1200,
                       bounds="3 matches / 2 maximal sequences, {} symbolic scorer values in 0..{} reused cyclically for all scorings, max_stack_depth={}".format(nsym, smax, d),
                       functions=[fn_id(C._ctparse), fn_id(PP.PartialParse.__lt__)], stubs=STUBS, site="_ctparse"))
    return out


def run(tier, t0, only=None):
    from concurrent.futures import ThreadPoolExecutor
    js = [j for j in search_jobs("C15", tier) if not only or only in j.name]
    with ThreadPoolExecutor(2) as ex:          # the two families share the 16 worker slots of their own pools
        f1 = ex.submit(run_wf, "C15", tier, None, (2024, 2), True, None, only)
        f2 = ex.submit(run_jobs, js, 8)
        res, info = f1.result()
        res += f2.result()
    return finish(
        "C15", tier, res, t0,
        assumptions=["real rules are deterministic and argument-preserving (FRAME obligations of this check) so the toy registry is representative of the search's view of a rule",
                     "regex engine contract for the tokenizer"],
        explanation="STACK (all maximal gap-free paths of the adjacency DAG; adjacency = no overlap and only blanks between), WINDOW, PREFILTER (never drops an applicable rule), "
                    "APPLY (splices exactly one element, appends the rule name), COVER, STREAM (FullyReduced <= streamed <= Derivable for every scorer order, TRACE replay, DEDUP) "
                    "on the real search functions; FRAME for every registered rule wrapper (arguments incl. spans unchanged, result not aliased).",
        outside=["the real rule base inside STREAM (too slow symbolically; its rules enter through FRAME/WF)", "texts with more than 3 matches in STREAM", "ruleDOWDOM"],
        extra_cov=info)
