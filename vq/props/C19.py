"""C19 — the rule base is structurally sound and the shipped model speaks its language."""
import ast
import inspect
import sys
import time

import z3

from ..core import finish, fn_id, Result, HOLDS, VIOLATED, INCONCLUSIVE
from ..e1 import Job, run_jobs
from .. import e2
from ..rx.z3re import L, MK, MKR, NOMK, SIG, WS, X, query
from ..wfrun import run_wf


def tok_ne():
    """TOK-NE: no pattern matches the empty string or yields a zero-length match, under any context"""
    pats, errors = e2.patterns()
    out = [e2.validate(200)]
    for pid in sorted(pats):
        out.append(e2.lemma("C19.TOK-NE[{}]".format(pid), pid, z3.Concat(NOMK, MKR, MKR, NOMK), "no zero-length match under any context",
                            "all contexts, any length; pattern {}".format(pid), pats))
        x = X()
        r, dt, ms = query([z3.InRe(x, pats[pid].plain), z3.Length(x) >= 1])
        res = Result("C19.LIVE-PATTERN[{}]".format(pid), "z3", INCONCLUSIVE, seconds=dt, bounds="non-emptiness of the pattern language; witness replayed on the real engine",
                     functions=["pattern %d" % pid])
        if r == "sat" and ms is not None:
            rr = e2.real_regex()[pid]
            hit = any(True for _ in rr.finditer(ms, overlapped=True))
            res.verdict = HOLDS if hit else INCONCLUSIVE
            res.detail = "witness %r %s by the real engine" % (ms, "matched" if hit else "NOT matched")
        elif r == "unsat":
            res.verdict, res.detail = VIOLATED, "the pattern language is empty: the rule can never fire"
            res.replay = {"kernel": "reproduced"}
        else:
            res.detail = r
        out.append(res)
    for pid, err in errors.items():
        out.append(Result("C19.TOK-NE[{}]".format(pid), "z3", INCONCLUSIVE, detail="pattern not translatable: " + err))
    return out


def ground_facts():
    """structural facts without a quantifier for a solver: evaluated as ground assertions on the
    live module objects and the syntax tree of the rule module"""
    import ctparse.ctparse  # noqa
    C = sys.modules["ctparse.ctparse"]
    RU = sys.modules["ctparse.rule"]
    TR = sys.modules["ctparse.time.rules"]
    t0 = time.time()
    out = []

    def fact(name, ok, detail, bounds):
        out.append(Result("C19." + name, "ground", HOLDS if ok else VIOLATED, seconds=time.time() - t0, bounds=bounds, detail=detail,
                          functions=["ctparse/time/rules.py (AST)", "ctparse.rule.rules / _regex / _regex_str / _str_regex (live)"],
                          replay=None if ok else {"kernel": "reproduced"}))
    tree = ast.parse(inspect.getsource(TR))
    defs = [n for n in tree.body if isinstance(n, ast.FunctionDef) and n.name.startswith("rule")]
    names = [n.name for n in defs]
    dup = sorted({n for n in names if names.count(n) > 1})
    fact("NAMES-UNIQUE", not dup, "duplicate rule definitions: %r" % dup if dup else "%d rule definitions, all names distinct" % len(names), "all `def rule*` of the syntax tree")
    decorated = [n.name for n in defs if any(isinstance(d, ast.Call) and getattr(d.func, "id", "") == "rule" for d in n.decorator_list)]
    undec = sorted(set(names) - set(decorated))
    fact("ALL-DECORATED", not undec, "rule functions without @rule: %r" % undec if undec else "every rule function carries @rule", "all `def rule*`")
    missing = sorted(set(names) - set(RU.rules))
    extra = sorted(k for k in RU.rules if k not in names)
    fact("REGISTERED", not missing and not extra, "missing from the registry: %r; registered but not defined: %r" % (missing, extra), "registry vs. syntax tree")
    wrong = sorted(k for k, v in RU.rules.items() if v[0].__closure__ is None or v[0].__closure__[0].cell_contents.__name__ != k)
    fact("OWN-NAME", not wrong, "registered under a foreign name: %r" % wrong if wrong else "every entry wraps the function of its own name", "registry")
    # adjacent string patterns (from the decorators of the AST)
    adj = []
    for n in defs:
        for d in n.decorator_list:
            if isinstance(d, ast.Call) and getattr(d.func, "id", "") == "rule":
                kinds = ["p" if (isinstance(a, ast.Call) and getattr(a.func, "id", "") in ("predicate", "dimension")) else "s" for a in d.args]
                if any(a == "s" and b == "s" for a, b in zip(kinds, kinds[1:])):
                    adj.append(n.name)
    fact("NO-ADJACENT-PATTERNS", not adj, "rules with two adjacent patterns: %r" % adj if adj else "no rule has two adjacent string patterns", "all @rule decorators")
    bij = len(RU._regex_str) == len(RU._str_regex) and all(RU._str_regex[v] == k for k, v in RU._regex_str.items()) and set(RU._regex) == set(RU._regex_str)
    fact("PATTERN-IDS", bij, "identical pattern text shares one identifier: _regex_str <-> _str_regex is a bijection over %d ids" % len(RU._regex), "all pattern ids")
    sc = C._DEFAULT_SCORER
    if hasattr(sc, "_model"):
        voc = sc._model.transformer.vocabulary
        uni = [k for k in voc if " " not in k]
        unknown = sorted(k for k in uni if not (k in RU.rules or (k.isdigit() and int(k) in RU._regex)))
        fact("MODEL-VOCABULARY", not unknown, "unigrams naming nothing: %r" % unknown[:8] if unknown else "all %d unigram tokens name a pattern id or a rule" % len(uni), "all unigrams of the shipped vocabulary")
    return out


def live_rules():
    """every rule can fire: some admissible argument-shape tuple has a non-None sampled output"""
    from .. import wfgen
    b = wfgen.build()
    t0 = time.time()
    fires = {}
    for key, ob in b["obligations"].items():
        fires.setdefault(ob["rule"], False)
        if any(a != "N" for a in ob["allowed"]):
            fires[ob["rule"]] = True
    import ctparse.rule as RU
    dead = sorted(r for r in RU.rules if not fires.get(r, False))
    return Result("C19.LIVE-RULES", "ground", HOLDS if not dead else VIOLATED, seconds=time.time() - t0,
                  bounds="all {} registered rules; admissible argument shapes from the reachable-shape fixpoint".format(len(RU.rules)),
                  detail="rules that can never fire: %r" % dead if dead else "every rule has an admissible argument tuple with a non-None result",
                  functions=["vq.wfgen fixpoint over the live registry"], replay=None if not dead else {"kernel": "reproduced"})


def run(tier, t0, only=None):
    res = tok_ne() + ground_facts() + [live_rules()]
    # POD-CLOSED: every part of day a rule chain can build is in the table (WF clause on the POD-building rules)
    wf, info = run_wf("C02", tier, rules={"ruleEarlyLatePOD", "rulePOD", "ruleDOWPOD", "ruleDatePOD", "rulePODDate", "ruleLatentPOD"}, only=None)
    for r in wf:
        r.name = r.name.replace("C02.WF", "C19.POD-CLOSED")
    res += wf
    if only:
        res = [r for r in res if only in r.name]
    return finish(
        "C19", tier, res, t0,
        assumptions=["regex engine contract", "structural facts are ground assertions (no quantifier for a solver to discharge), reported as engine 'ground'"],
        explanation="TOK-NE (z3, all contexts): no pattern yields a zero-length match; LIVE: every pattern language is non-empty (witness replayed on the real engine) and every rule has an "
                    "admissible argument tuple with a result; POD-CLOSED: the part-of-day building rules stay inside the live table (CrossHair, WF clause); ground facts: registry vs. "
                    "syntax tree, unique names, no adjacent patterns, pattern-id bijection, model vocabulary.",
        outside=["modifier chains are covered through the inductive WF step, not by enumerating chains"],
        extra_cov=info)
