"""C10 — subject and labels partition the non-time words."""
from ..core import finish, fn_id
from ..e1 import Job, run_jobs

HA = "vq.harness.h_api"


def jobs(tier):
    import sys
    import ctparse.ctparse  # noqa
    C = sys.modules["ctparse.ctparse"]
    nw, nt, ns, nti = (2, 3, 3, 2) if tier == "quick" else (3, 3, 4, 2)
    return [Job("C10.SUBJECT+LABELS", HA, "ob_subject", timeout=3600, path_timeout=120,
                env={"VQ_NW10": str(nw), "VQ_NT10": str(nt), "VQ_NS10": str(ns), "VQ_NTI10": str(nti)},
                bounds="texts of 1..2 pieces ({} words incl. a hyphenated one / {} valid hashtags, each followed by one of {} separator strings) with one of {} time expressions at every position; ".format(nw, nt, ns, nti) +
                       "each also without the time expression (no-match path) and without the hashtags",
                functions=[fn_id(C.ctparse), fn_id(C._ctparse), fn_id(C._get_labels), fn_id(C._preprocess_string)],
                stubs=["parser runs untraced; pool indices symbolic (solver covers every combination)"], site="ctparse")]


def run(tier, t0, only=None):
    from .. import e3
    res = e3.label_lemmas(tier)
    if only:
        res = [r for r in res if only in r.name]
    js = [j for j in jobs(tier) if not only or only in j.name]
    res += run_jobs(js)
    return finish(
        "C10", tier, res, t0,
        assumptions=["every '#' starts a valid hashtag delimited by separators (the property's own precondition)"],
        explanation="LABEL-SPANS (E3, z3 over strings of N symbolic characters): the extraction scanner and the stripping scanner (patterns re-read from the function sources) find the "
                    "same spans, labels are the tags without '#', nothing else is deleted. SUBJECT+LABELS (API-level differential, pool indices symbolic): labels = hashtags in order, "
                    "no hashtag in the subject, subject = the non-time words in order, identical on the match and the no-match path, unchanged when the hashtags are removed.",
        outside=["texts outside the pools for the composition; which tokens the real tokenizer reports for arbitrary text"])
