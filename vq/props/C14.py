"""C14 — the returned parse is a best-scoring candidate of the stream, scores are finite."""
from ..core import finish, fn_id, Result, HOLDS, VIOLATED
from ..e1 import Job, run_jobs
from .C15 import search_jobs, STUBS

HS = "vq.harness.h_search"
HP = "vq.harness.h_pure"


def ground_model_finite():
    """ground fact (no quantifier for a solver): every parameter of the shipped model is finite"""
    import math, sys, time
    import ctparse.ctparse  # noqa
    C = sys.modules["ctparse.ctparse"]
    t = time.time()
    sc = C._DEFAULT_SCORER
    if not hasattr(sc, "_model"):
        return Result("C14.model-finite", "ground", HOLDS, detail="constant scorer in use", bounds="n/a")
    est = sc._model.estimator
    vals = list(est.class_prior) + [v for k in est.log_likelihood for v in est.log_likelihood[k]]
    bad = [v for v in vals if not math.isfinite(v)]
    return Result("C14.model-finite", "ground", VIOLATED if bad else HOLDS, seconds=time.time() - t,
                  bounds="all {} parameters of the shipped model".format(len(vals)), detail="non-finite: %r" % bad[:3] if bad else "all finite",
                  functions=["ctparse/models/model.pbz (loaded by the real loader)"])


def jobs(tier):
    import sys
    import ctparse.ctparse  # noqa
    C = sys.modules["ctparse.ctparse"]
    NS = sys.modules["ctparse.nb_scorer"]
    out = [Job("C14.SELECT", HS, "ob_select", timeout=600, bounds="streams of 0..4 candidates with symbolic real scores in [-1e6, 1e6]; the [None] stream",
               functions=[fn_id(C.ctparse)], stubs=["ctparse_gen replaced by a scripted stream"], site="ctparse"),
           Job("C14.FINITE", HP, "ob_score_finite", timeout=600,
               bounds="4 texts (len 1..8), every span 0 <= a < b <= len (case split), model log-probabilities and the log value symbolic integers in [-10^6, 0]; score and score_final",
               functions=[fn_id(NS.NaiveBayesScorer.score), fn_id(NS.NaiveBayesScorer.score_final)],
               stubs=["math.log inside nb_scorer replaced by a stub that records its argument and returns a symbolic finite value", "model replaced by a stub returning symbolic log-probabilities"],
               site="NaiveBayesScorer")]
    out.append(Job("C14.API-STREAM", HP, "ob_api_stream", timeout=1800, path_timeout=120,
                   bounds="8 texts x 2 reference times x latent on/off x {no earlier call, earlier stream with latent on, with latent off}: shipped model, no timeout: ctparse() returns one of the streamed candidates "
                          "with the maximal score (same production, subject, labels), empty resolution iff empty stream, scores finite, re-streaming only with a strictly higher score (latent off)",
                   functions=[fn_id(C.ctparse), fn_id(C.ctparse_gen), fn_id(C._ctparse)], stubs=["parser untraced; pool indices symbolic"], site="ctparse"))
    out.append(Job("C14.LSE-RANGE", HP, "ob_lse_range", timeout=300, bounds="_log_sum_exp finite on very negative pairs", functions=["ctparse.nb_estimator._log_sum_exp"], site="_log_sum_exp"))
    out.append(Job("C14.SCORE-HIST", HP, "ob_score_hist", timeout=600, bounds="three consecutive scorings on one scorer object with permuted traces",
                   functions=[fn_id(NS.NaiveBayesScorer.score), fn_id(NS.NaiveBayesScorer.score_final)], stubs=["math.log stub", "order-sensitive model stub"], site="NaiveBayesScorer"))
    out += [j for j in search_jobs("C14", tier) if "STREAM" in j.name]
    return out


def run(tier, t0, only=None):
    js = [j for j in jobs(tier) if not only or only in j.name]
    res = run_jobs(js)
    res.append(ground_model_finite())
    return finish(
        "C14", tier, res, t0,
        assumptions=["floats are modelled as reals (|score| <= 1e6; above 2^53 the `score - 1` of the dedup test is absorbed: outside the claim)",
                     "spans are non-empty and inside a non-empty text (C02 SPAN clause, token lemma TOK-NE)"],
        explanation="SELECT: ctparse() returns an element of the stream with maximal score, an empty resolution iff the stream is empty (or [None]); DEDUP (inside STREAM): a value is streamed "
                    "again only with a strictly higher score, for every scorer order; FINITE: score / score_final = log-odds + (1000x) log(covered share) with the log argument in (0, 1].",
        outside=["the shipped float model inside the search (its parameters are checked finite as a ground fact)", "subject/labels equality between ctparse and ctparse_gen beyond object identity of the returned candidate"])
