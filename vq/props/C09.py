"""C09 — words around a time expression neither change its meaning nor blur its span."""
import z3

from ..core import finish, fn_id, Result, HOLDS, VIOLATED, INCONCLUSIVE, known_active
from ..e1 import Job, run_jobs
from .. import e2
from ..rx.z3re import L, MK, MKR, NOMK, SIG, WS, DIG, WORD, ANY, X, query, uni

HA = "vq.harness.h_api"
BL = L(" ")


def api_span_replay(pid):
    """token-level trailing blank -> API observable: an expression followed by an inert word"""
    def f(parts):
        import sys
        from datetime import datetime
        import ctparse.ctparse  # noqa
        C = sys.modules["ctparse.ctparse"]
        before, mid, after = parts
        expr = mid.strip()
        text = expr + " xyz"
        try:
            p = C.ctparse(text, ts=datetime(2018, 3, 7, 12, 43), timeout=0)
        except Exception as e:
            return {"api_reproduced": True, "text": text, "exception": repr(e)}
        if p.resolution is None:
            return {"api_reproduced": False, "text": text, "note": "no resolution"}
        bad = p.resolution.mend > len(expr) and text[p.resolution.mend - 1] == " "
        return {"api_reproduced": bad, "text": text, "span": [p.resolution.mstart, p.resolution.mend], "resolution": str(p.resolution)}
    return f


def tok_lemmas(tier, span_trim_holds):
    pats, errors = e2.patterns()
    out = [e2.validate(300 if tier == "quick" else 3000)]
    for pid in sorted(pats):
        core = z3.Concat(NOMK, MKR, z3.Star(WS), MKR, NOMK)
        out.append(e2.lemma("C09.TOK-CORE[{}]".format(pid), pid, core, "no match consists of white space only (or is empty)",
                            "all strings, any length; pattern {}".format(pid), pats))
        # TOK-TRAIL: no match ends (or starts) with a blank.  Context restricted to what the
        # normaliser lets through: the only white space is the single blank
        trail = z3.Concat(NOMK, MKR, NOMK, BL, MKR, NOMK)
        r = e2.lemma("C09.TOK-TRAIL[{}]".format(pid), pid, trail, "no match of the pattern ends with a blank",
                     "all strings, any length; pattern {}".format(pid), pats, replay=api_span_replay(pid))
        if r.verdict == INCONCLUSIVE and r.replay and r.replay.get("engine") == "reproduced" and span_trim_holds:
            # the pattern can swallow the blank after the expression, but RegexMatch trims it
            # (obligation SPAN-TRIM holds) and the API witness shows a clean span
            r.verdict = HOLDS
            r.detail = "pattern admits a trailing blank ({!r}); span trimmed by RegexMatch.__init__ (SPAN-TRIM), API span clean".format(r.replay.get("match"))
        out.append(r)
        lead = z3.Concat(NOMK, MKR, BL, NOMK, MKR, NOMK)
        out.append(e2.lemma("C09.TOK-LEAD[{}]".format(pid), pid, lead, "no match of the pattern starts with a blank",
                            "all strings, any length; pattern {}".format(pid), pats))
    return out


def jobs(tier):
    import sys
    import ctparse.ctparse  # noqa
    C = sys.modules["ctparse.ctparse"]
    nw, nts = (2, 1) if tier == "quick" else (3, 2)
    chunks = [(0, 100)] if tier == "quick" else [(0, 4), (4, 8), (8, 12), (12, 16)]
    return [Job("C09.EMBED[{}..{}]".format(lo, hi - 1), HA, "ob_embed", timeout=5400, path_timeout=120,
                env={"VQ_NWORDS": str(nw), "VQ_NTS": str(nts), "VQ_ELO": str(lo), "VQ_EHI": str(hi)},
                bounds="expressions {}..{} of 16 x 0..2 inert words before x 0..2 after ({} inert words incl. a 12-letter one, inertness decided by the library's own patterns) x {} reference time(s) x latent on/off: same resolution, span = expression span shifted".format(lo, min(hi, 16) - 1, nw, nts),
                functions=[fn_id(C.ctparse), fn_id(C._ctparse), fn_id(C._match_regex), fn_id(C._regex_stack)],
                stubs=["parser runs untraced; pool indices symbolic (solver covers every combination)"], site="ctparse") for lo, hi in chunks]


def run(tier, t0, only=None):
    from ..harness.common import TY
    trim = run_jobs([Job("C09.SPAN-TRIM", "vq.harness.h_search", "ob_span_trim", timeout=300,
                         bounds="match start 0..50 symbolic, 8 match texts with / without trailing white space",
                         functions=[fn_id(TY.RegexMatch.__init__)], stubs=["regex match object replaced by a stub answering span() and group()"], site="RegexMatch")])
    res = trim + tok_lemmas(tier, trim[0].verdict == HOLDS)
    if only:
        res = [r for r in res if only in r.name]
    js = [j for j in jobs(tier) if not only or only in j.name]
    res += run_jobs(js)
    return finish(
        "C09", tier, res, t0,
        assumptions=["regex engine contract (a match is a string of the pattern's language under its look-around context)", "\\w modelled for ASCII + Latin letters up to U+024F"],
        explanation="TOK-TRAIL / TOK-LEAD (z3 regular-expression theory on the translated patterns, unbounded strings): no match starts or ends with a blank, so a span never includes the "
                    "blank after the expression; EMBED (API-level differential over symbolic pool indices): expression alone vs. embedded among inert words gives the same resolution and the shifted span. "
                    "Span preservation by rules and latent anchoring: C02 span clause.",
        outside=["the composition of token lemmas into 'same winner' for texts outside the pools", "expressions whose reading is documented ambiguous (4-digit year readable as hh:mm)"])
