"""Case-split cells of the reference time (DESIGN §2.1)."""


def cells(tier, klass="C"):
    """year x month cells.  quick: the months whose boundaries differ in kind — leap/common
    February, a 30-day month, year end and year start; thorough: all 336 cells of the 28-year
    weekday/leap cycle 2016..2043."""
    if tier == "thorough":
        return [(y, m) for y in range(2016, 2044) for m in range(1, 13)]
    if klass == "B":   # cheap obligations: every month of a common and of a leap year
        return [(y, m) for y in (2023, 2024) for m in range(1, 13)]
    return [(2024, 2), (2023, 2), (2023, 12), (2024, 1), (2023, 4), (2024, 12)]


def years(tier):
    if tier == "thorough":
        return list(range(2016, 2044))
    return [2023, 2024, 2027, 2028]
