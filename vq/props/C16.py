"""C16 — the scorer is textbook multinomial naive Bayes over 1-3-grams."""
import itertools
import math
import time

import z3

from ..core import finish, fn_id, Result, HOLDS, VIOLATED, INCONCLUSIVE
from ..e1 import Job, run_jobs
from .. import e4
from ..e4 import S, LOG, EXP

HN = "vq.harness.h_nb"
HP = "vq.harness.h_pure"


def _textbook_ll(X, y, V, cls_positive, alpha=1):
    docs = [X[k] for k in range(len(X)) if (y[k] == 1) == cls_positive]
    def c(i):
        return sum((d[i].t for d in docs if i in d), z3.RealVal(0))
    tot = sum((c(j) + alpha for j in range(V)), z3.RealVal(0))
    return [LOG(c(i) + alpha) - LOG(tot) for i in range(V)]


def nb_eq(V, P, N, sparse=False):
    import ctparse.nb_estimator as NB
    e4.install(NB)
    try:
        X, y, assume, ivars = [], [], [], []
        for k in range(P + N):
            d, a, vs = e4.sym_counts("d%d" % k, V)
            if sparse and k > 0:
                d = {i: v for i, v in d.items() if (i + k) % 2 == 0}
            if sparse and k == 0:
                d = {i: v for i, v in d.items() if i in (0, V - 1)}
            X.append(d)
            y.append(1 if k < P else -1)
            assume += a
        e4.Ctx.decisions, e4.Ctx.pos, e4.Ctx.path, e4.Ctx.log_args, e4.Ctx.exp_args = [], 0, [], [], []
        ll = NB.MultinomialNaiveBayes._construct_log_likelihood(X, y, 1.0)
        log_args = list(e4.Ctx.log_args)
    finally:
        e4.uninstall(NB)
    bad = []
    for cls, pos in (("positive_class", True), ("negative_class", False)):
        spec = _textbook_ll(X, y, V, pos)
        if len(ll[cls]) != V:
            bad.append(z3.BoolVal(True))
            continue
        for i in range(V):
            bad.append(ll[cls][i].t != spec[i])
    name = "C16.NB-EQ[V={},pos={},neg={}{}]".format(V, P, N, ",sparse" if sparse else "")
    bounds = "vocabulary {} features, {}+{} aggregate documents{}, counts arbitrary non-negative integers, alpha = 1".format(V, P, N, " (sparse)" if sparse else "")
    fns = [fn_id(NB.MultinomialNaiveBayes._construct_log_likelihood)]
    r = e4.check(name, assume, z3.Or(*bad), bounds, fns)
    if r.verdict == VIOLATED:
        r = _replay_nb_eq(r, V, P, N, sparse)
    # NB-FIN: every argument of log is positive
    fin = e4.check(name.replace("NB-EQ", "NB-FIN"), assume, z3.Or(*[a <= 0 for a in log_args]), bounds + "; {} log applications".format(len(log_args)), fns)
    return [r, fin]


def _replay_nb_eq(r, V, P, N, sparse):
    """concrete replay of a z3 model on the real function with math.log"""
    import ctparse.nb_estimator as NB
    model = r.cex["model"]
    X, y = [], []
    for k in range(P + N):
        d = {i: int(model.get("d%d_%d" % (k, i), "0")) for i in range(V)}
        if sparse and k > 0:
            d = {i: v for i, v in d.items() if (i + k) % 2 == 0}
        if sparse and k == 0:
            d = {i: v for i, v in d.items() if i in (0, V - 1)}
        X.append(d)
        y.append(1 if k < P else -1)
    try:
        ll = NB.MultinomialNaiveBayes._construct_log_likelihood(X, y, 1.0)
    except Exception as e:
        r.replay = {"kernel": "reproduced", "exception": repr(e), "X": X, "y": y}
        return r
    ok = True
    for cls, pos in (("positive_class", True), ("negative_class", False)):
        docs = [X[k] for k in range(len(X)) if (y[k] == 1) == pos]
        c = [sum(d.get(i, 0) for d in docs) + 1 for i in range(V)]
        for i in range(V):
            if len(ll[cls]) != V or abs(ll[cls][i] - (math.log(c[i]) - math.log(sum(c)))) > 1e-9:
                ok = False
    r.replay = {"kernel": "not-reproduced" if ok else "reproduced", "X": X, "y": y}
    if ok:
        r.verdict = INCONCLUSIVE
        r.detail = "z3 model does not reproduce on the real function (encoding error)"
    return r


def prior(y):
    """ground structural fact (float division happens before log): the two log arguments are
    n_neg/n and n_pos/n and the result is (log(arg0), log(arg1))"""
    import ctparse.nb_estimator as NB
    t = time.time()
    e4.install(NB)
    try:
        e4.Ctx.log_args = []
        got = NB.MultinomialNaiveBayes._construct_log_class_prior(y)
        args = list(e4.Ctx.log_args)
    finally:
        e4.uninstall(NB)
    nneg = sum(1 for v in y if v == -1)
    npos = len(y) - nneg
    def num(a):
        a = z3.simplify(a)
        return float(a.as_fraction()) if z3.is_rational_value(a) else None
    vals = [num(a) for a in args]
    ok = len(vals) == 2 and None not in vals and abs(vals[0] - nneg / len(y)) < 1e-12 and abs(vals[1] - npos / len(y)) < 1e-12 \
        and z3.eq(z3.simplify(got[0].t), z3.simplify(LOG(args[0]))) and z3.eq(z3.simplify(got[1].t), z3.simplify(LOG(args[1])))
    return Result("C16.PRIOR[{}]".format("".join("+" if v == 1 else "-" for v in y)), "ground", HOLDS if ok else VIOLATED, seconds=time.time() - t,
                  bounds="label list {}".format(y), detail="log arguments {}".format(vals), functions=[fn_id(NB.MultinomialNaiveBayes._construct_log_class_prior)])


def predict(V):
    """log-odds of predict_log_probability = textbook joint log-odds; outputs exponentiate to 1"""
    import ctparse.nb_estimator as NB
    e4.install(NB)
    try:
        est = NB.MultinomialNaiveBayes()
        pn, pp = z3.Real("prior_neg"), z3.Real("prior_pos")
        est.class_prior = (S(pn), S(pp))
        lln = [z3.Real("lln_%d" % i) for i in range(V)]
        llp = [z3.Real("llp_%d" % i) for i in range(V)]
        est.log_likelihood = {"negative_class": [S(v) for v in lln], "positive_class": [S(v) for v in llp]}
        doc, assume, _ = e4.sym_counts("q", V)
        paths = e4.explore(lambda: est.predict_log_probability([doc]))
    finally:
        e4.uninstall(NB)
    fns = [fn_id(NB.MultinomialNaiveBayes.predict_log_probability), fn_id(NB._log_sum_exp)]
    out = []
    joint_n = pn + sum((lln[i] * doc[i].t for i in range(V)), z3.RealVal(0))
    joint_p = pp + sum((llp[i] * doc[i].t for i in range(V)), z3.RealVal(0))
    for k, (path, res, log_args, exp_args) in enumerate(paths):
        on, op = res[0][0].t, res[0][1].t
        out.append(e4.check("C16.PREDICT-ODDS[V={},path{}]".format(V, k), assume + path, (op - on) != (joint_p - joint_n),
                            "{} features, symbolic parameters and counts; branch {} of max()".format(V, k), fns))
        # normalisation with the axioms exp(a - log b) = exp(a)/b instantiated on the terms that occur
        ax = []
        m = z3.Real("m_%d" % k)
        # lse = mx + log(s): find s = the single log argument
        if len(log_args) != 1 or len(exp_args) != 2:
            out.append(Result("C16.NB-NORM[V={},path{}]".format(V, k), "z3", INCONCLUSIVE, detail="unexpected structure of _log_sum_exp", functions=fns))
            continue
        s_ = log_args[0]
        a_, b_ = EXP(exp_args[0]), EXP(exp_args[1])
        ax += [a_ > 0, b_ > 0, s_ == a_ + b_]
        # exp(on) = exp(arg0 - log s) = exp(arg0)/s  where on == exp_args[0] - LOG(s) must hold (checked as part of the goal)
        struct_ok = z3.And(on == exp_args[0] - LOG(s_), op == exp_args[1] - LOG(s_))
        ax += [EXP(exp_args[0] - LOG(s_)) == a_ / s_, EXP(exp_args[1] - LOG(s_)) == b_ / s_]
        goal = z3.And(struct_ok, EXP(exp_args[0] - LOG(s_)) + EXP(exp_args[1] - LOG(s_)) == 1)
        out.append(e4.check("C16.NB-NORM[V={},path{}]".format(V, k), assume + path + ax, z3.Not(goal),
                            "{} features; axioms exp>0 and exp(a-log b)=exp(a)/b instantiated on the occurring terms".format(V), fns, timeout_ms=60000))
    return out


def jobs(tier):
    from ctparse.count_vectorizer import CountVectorizer
    import sys
    NS = sys.modules["ctparse.nb_scorer"]
    return [
        Job("C16.NGRAM", HN, "ob_ngram", timeout=600, bounds="documents of 0..5 tokens over 3 symbols, n-gram range (1,3)", functions=[fn_id(CountVectorizer._create_ngrams)], site="_create_ngrams"),
        Job("C16.COUNT+VOCAB+FEAT", HN, "ob_counts", timeout=1800, env={"VQ_NTRAIN": "4" if tier == "quick" else "5", "VQ_NQUERY": "2" if tier == "quick" else "3"},
            bounds="training document 1..4 (thorough: 5) tokens over 2 symbols (+ a one-token document), query 0..2 (thorough: 3) tokens over 2 known + 1 unseen symbol; token indices symbolic, code untraced per path",
            functions=[fn_id(CountVectorizer._get_feature_counts), fn_id(CountVectorizer._build_vocabulary), fn_id(CountVectorizer._create_feature_matrix), fn_id(CountVectorizer.fit_transform), fn_id(CountVectorizer.transform)], site="CountVectorizer"),
        Job("C16.SCORE", HP, "ob_score_finite", timeout=600, bounds="score = log-odds + log(covered/len), final = log-odds + 1000 log(len(prod)/len): 4 texts, every span (case split), symbolic model outputs",
            functions=[fn_id(NS.NaiveBayesScorer.score), fn_id(NS.NaiveBayesScorer.score_final)], stubs=["math.log stub recording its argument", "model stub"], site="NaiveBayesScorer"),
        Job("C16.LSE-RANGE", HP, "ob_lse_range", timeout=300, bounds="_log_sum_exp on pairs from {-5000, ..., 0}: finite and within [max, max + log 2] in float arithmetic",
            functions=["ctparse.nb_estimator._log_sum_exp"], site="_log_sum_exp"),
        Job("C16.SCORE-HIST", HP, "ob_score_hist", timeout=600, bounds="three consecutive scorings on one scorer object, traces that are permutations of each other, model outputs symbolic: each score is the formula on its own trace",
            functions=[fn_id(NS.NaiveBayesScorer.score), fn_id(NS.NaiveBayesScorer.score_final)], stubs=["math.log stub", "order-sensitive model stub"], site="NaiveBayesScorer"),
        Job("C16.FIT-REFERENCE", HN, "ob_fit", timeout=3600, path_timeout=120, env={"VQ_NDOCS": "3" if tier == "quick" else "4"},
            bounds="training sets of 2..{} documents from 6 token sequences over 2 symbols, every labelling with both classes: train_naive_bayes + predict_log_proba = textbook Laplace NB over 1-3-grams (1e-9), finite, normalised".format(3 if tier == "quick" else 4),
            functions=[fn_id(NS.train_naive_bayes), fn_id(NS.CTParsePipeline.fit), fn_id(NS.CTParsePipeline.predict_log_proba)], stubs=["code untraced; corpus indices and labels symbolic"], site="train_naive_bayes"),
        Job("C16.MODEL-FRAME", HP, "ob_model_frame", timeout=600, bounds="toy pipeline, documents 0..4 tokens: repeatable, finite, normalised predictions (float arithmetic, concrete per path)",
            functions=[fn_id(NS.CTParsePipeline.predict_log_proba)], site="pipeline"),
    ]


def run(tier, t0, only=None):
    res = []
    shapes = [(2, 1, 1), (3, 2, 1), (3, 1, 2), (4, 2, 2)] if tier == "quick" else [(v, p, n) for v in (2, 3, 4, 5) for p in (1, 2, 3) for n in (1, 2, 3)]
    for (v, p, n) in shapes:
        res += nb_eq(v, p, n)
    res += nb_eq(4, 2, 1, sparse=True)
    for y in ([1, -1], [1, 1, -1], [-1, -1, 1, -1], [1, -1, 1, 1, -1, 1]):
        res.append(prior(y))
    for v in ((2, 3) if tier == "quick" else (2, 3, 4)):
        res += predict(v)
    if only:
        res = [r for r in res if only in r.name]
    js = [j for j in jobs(tier) if not only or only in j.name]
    res += run_jobs(js)
    return finish(
        "C16", tier, res, t0,
        assumptions=["log/exp are uninterpreted functions in the equivalence obligations (equal arguments, equal results); NB-NORM additionally uses exp > 0 and exp(a - log b) = exp(a)/b",
                     "both classes occur in the training set (otherwise the prior is log 0)", "an aggregate document with symbolic counts stands for any corpus with those class totals"],
        explanation="Shadow execution (E4): the real estimator functions run once per shape on z3-backed counts; the resulting terms are compared with the textbook Laplace-smoothed "
                    "multinomial likelihood, prior and joint log-odds by z3 (unsat of the negation); every log argument is shown positive. CrossHair: n-gram windows 1..3, counting, "
                    "sorted-bijection vocabulary, unknown n-grams ignored, score = log-odds + (1000x) log coverage.",
        outside=["saving and re-loading a model (pickle/bz2: C / I-O boundary) — not applicable to this technique", "float rounding (reals)", "vocabularies larger than the shapes listed"])
