"""C18 — resolutions compare, hash and print by value."""
from ..core import finish, fn_id
from ..e1 import Job, run_jobs

H = "vq.harness.h_eq"


def jobs(tier):
    from ..harness.common import TY
    fns = [fn_id(TY.Artifact.__eq__), fn_id(TY.Artifact.__hash__)]
    st = ["the name `hash` inside ctparse/types.py is bound to an injective stand-in (equal arguments give equal results, nothing else assumed)"]
    return [
    ] + [
        Job("C18.EQ+HASH[Time/mask{}]".format(mk), H, "ob_eq_time", env={"VQ_MASK": str(mk)}, timeout=900,
            bounds="Time a: fields present = bit mask {} (year=1, month=2, day=4, hour=8, minute=16, DOW=32, POD=64); Time b: any of the 128 masks; all fields over their full ranges, spans symbolic".format(mk),
            functions=fns + [fn_id(TY.Time.__init__)], stubs=st, site="Time")
        for mk in ([7, 31, 24, 8, 32, 64, 6, 0, 127] if tier == "quick" else range(128))
    ] + [
        Job("C18.ROUNDTRIP", H, "ob_roundtrip", timeout=3600, path_timeout=120,
            bounds="Time: every presence mask (128) x low / high / mid values of every field (incl. minute 59, year 1 and 9999, longest part-of-day name); Interval: 4 x 4 presence masks x value variants for the two ends, open ends; "
                   "Duration: 3 amounts x 6 units: from_str(str(x)) == x, parse_nb_string(nb_str(x)) == x",
            functions=[fn_id(TY.Time.from_str), fn_id(TY.Time.__str__), fn_id(TY.Interval.from_str), fn_id(TY.Duration.from_str)], stubs=["code untraced; masks and value variants symbolic (solver covers every combination)"], site="from_str"),
        Job("C18.EQ+HASH[Duration]", H, "ob_eq_duration", timeout=300, bounds="two Durations: amount 0..10^4, 6 units, spans symbolic",
            functions=fns + [fn_id(TY.Duration.__init__)], stubs=st, lift="lift_eq_duration", site="Duration"),
        Job("C18.EQ+HASH[Interval]", H, "ob_eq_interval", timeout=900, bounds="two Intervals: each end None | clock | date | date+clock with symbolic hour/minute/year, spans symbolic (incl. inner spans)",
            functions=fns + [fn_id(TY.Interval.__init__)], stubs=st, site="Interval"),
    ]


def run(tier, t0, only=None):
    js = [j for j in jobs(tier) if not only or only in j.name]
    res = run_jobs(js)
    return finish(
        "C18", tier, res, t0,
        assumptions=["the built-in hash maps equal tuples to equal values (the stand-in keeps exactly that)"],
        explanation="EQ: for two symbolic artifacts of each kind a == b iff same kind and equal value fields, for arbitrary spans; HASH: equal values have equal hashes "
                    "(real __hash__ run with an injective stand-in for the built-in). Printed-form injectivity / round trip: E2 obligations (STR).",
        outside=["field values other than the low/high/mid variants in ROUNDTRIP (equality/hash: full ranges)", "year outside 1..9999"])
