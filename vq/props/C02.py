"""C02 — every resolution is a well-formed calendar value; accessors never fail."""
from ..core import finish
from ..wfrun import run_wf


def run(tier, t0, only=None):
    res, info = run_wf("C02", tier, only=only)
    return finish(
        "C02", tier, res, t0,
        assumptions=["regex engine contract: group texts are in the language of their group (ranges derived from the live pattern AST)",
                     "candidates streamed by ctparse_gen are exactly the artifacts the induction talks about (rule applications on regex matches)"],
        explanation="Inductive invariant WF (month/day/hour/minute/weekday ranges, part of day in the live table, day exists in month[/year], dated interval ordered, "
                    "result span = hull of argument spans): the registered wrapper of every rule is executed symbolically on every admissible tuple of argument shapes "
                    "(shape closure computed as a fixpoint from the live registry and itself solver-checked); post = no exception, result None or WF. "
                    "One step from an arbitrary WF state covers derivations of any length.",
        outside=["ruleDOWDOM (dateutil.rrule not executable symbolically)", "year of top-level values outside 1880..2109 (what ruleYear can build for ts 1970..2100)",
                 "quick tier: parts of day restricted to 14 table keys; date-arithmetic rules: argument years 2023/2024, duration amount <= 40"],
        extra_cov=info)
