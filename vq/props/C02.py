"""C02 — every resolution is a well-formed calendar value; accessors never fail."""
from ..core import finish
from ..wfrun import run_wf


def extra_jobs(tier):
    import sys
    import ctparse.ctparse  # noqa
    from ..core import fn_id
    from ..e1 import Job
    C = sys.modules["ctparse.ctparse"]
    from ..harness.common import NPODS
    nw = 2 if tier == "quick" else 3
    from .C01 import latent_doy_jobs
    return latent_doy_jobs("C02") + [Job("C02.PODTABLE", "vq.harness.h_latent", "ob_podtable", timeout=300, bounds="all {} entries of the part-of-day table (index symbolic): start and end hour in 0..23".format(NPODS),
                functions=["ctparse.types.pod_hours (live table)"], site="pod_hours"),
            Job("C02.SPAN-API", "vq.harness.h_api", "ob_embed", timeout=3600, path_timeout=120, env={"VQ_NWORDS": str(nw), "VQ_NTS": "1"},
                bounds="12 expressions alone and embedded among 0..2 inert words each side, consecutive calls with the same reference time, latent on/off: the winner's span lies inside the text and delimits the expression",
                functions=[fn_id(C.ctparse), fn_id(C.ctparse_gen)], stubs=["parser untraced; pool indices symbolic"], site="ctparse")]


def run(tier, t0, only=None):
    from concurrent.futures import ThreadPoolExecutor
    from ..e1 import run_jobs
    exj = [j for j in extra_jobs(tier) if not only or only in j.name]
    with ThreadPoolExecutor(2) as ex:
        f1 = ex.submit(run_wf, "C02", tier, None, (2024, 2), True, None, only)
        f2 = ex.submit(run_jobs, exj, 2)
        res, info = f1.result()
        res += f2.result()
    return finish(
        "C02", tier, res, t0,
        assumptions=["regex engine contract: group texts are in the language of their group (ranges derived from the live pattern AST)",
                     "candidates streamed by ctparse_gen are exactly the artifacts the induction talks about (rule applications on regex matches)"],
        explanation="Inductive invariant WF (month/day/hour/minute/weekday ranges, part of day in the live table, day exists in month[/year], dated interval ordered, "
                    "result span = hull of argument spans): the registered wrapper of every rule is executed symbolically on every admissible tuple of argument shapes "
                    "(shape closure computed as a fixpoint from the live registry and itself solver-checked); post = no exception, result None or WF. "
                    "One step from an arbitrary WF state covers derivations of any length.",
        outside=["ruleDOWDOM (dateutil.rrule not executable symbolically)", "year of top-level values outside 1880..2109 (what ruleYear can build for ts 1970..2100)",
                 "quick tier: parts of day restricted to 14 table keys; date-arithmetic rules: argument years 2023/2024, duration amount <= 40"],
        extra_cov=info)
