"""Concrete replay of a CrossHair counterexample (plain CPython, unmodified tree).

stdin: {"module", "func", "call": [args, kwargs], "lift": name|null}
stdout (last line): {"kernel": reproduced|not-reproduced|error, "api": ..., ...}
"""
import importlib
import json
import sys
import traceback


def main() -> None:
    req = json.loads(sys.stdin.read())
    mod = importlib.import_module(req["module"])
    fn = getattr(mod, req["func"])
    args, kwargs = req["call"]
    out = {}
    try:
        r = fn(*args, **kwargs)
        out["kernel"] = "reproduced" if r is False else "not-reproduced"
        out["kernel_value"] = repr(r)
    except Exception as e:  # an exception escaping the harness body is a failure of `post`
        out["kernel"] = "reproduced"
        out["kernel_value"] = "raised {}: {}".format(type(e).__name__, e)
    if out["kernel"] == "not-reproduced":
        # the solver's values may depend on state left by earlier paths of the same CrossHair
        # process (e.g. a module-level cache in the code under test).  If the harness offers a small
        # replay domain, look in a fresh process for values that do fail: only such a reproducible
        # witness is ever reported
        dom = getattr(mod, "dom_" + req["func"][3:], None)
        if dom is not None:
            for cand in dom():
                try:
                    bad = fn(*cand) is False
                except Exception:
                    bad = True
                if bad:
                    out["kernel"] = "reproduced"
                    out["kernel_value"] = "False for the nearby values %r (solver's own values %r did not reproduce in a fresh process)" % (cand, args)
                    args, kwargs = list(cand), {}
                    out["replayed_args"] = list(cand)
                    break
    if out["kernel"] == "not-reproduced" and not req.get("no_fresh"):
        # same idea, but every candidate in its own fresh interpreter (for obligations that already
        # contain an explicit earlier call: state must not leak between candidates)
        domf = getattr(mod, "dom_fresh_" + req["func"][3:], None)
        if domf is not None:
            import subprocess
            for cand in domf():
                sub = dict(req, call=[list(cand), {}], lift=None, no_fresh=True)
                p = subprocess.run([sys.executable, "-m", "vq.replay_kernel"], input=json.dumps(sub), text=True, capture_output=True)
                try:
                    o2 = json.loads(p.stdout.strip().split("\n")[-1])
                except Exception:
                    continue
                if o2.get("kernel") == "reproduced":
                    out["kernel"] = "reproduced"
                    out["kernel_value"] = "False for the nearby values %r in a fresh interpreter (solver's own values %r did not reproduce there)" % (list(cand), args)
                    out["replayed_args"] = list(cand)
                    args, kwargs = list(cand), {}
                    break
    why = getattr(mod, "why_" + req["func"][3:], None)
    if why is not None:
        try:
            out["why"] = why(*args, **kwargs)
        except Exception as e:
            out["why"] = "why-function raised %r" % (e,)
    if out.get("why", "").startswith("closure:"):
        print(json.dumps(out, default=str))
        return
    if req.get("lift") and out["kernel"] == "reproduced":
        try:
            # the API replay runs the unmodified library: drop the harness's scoped helpers
            # (e.g. the `int` shim used with regex group stubs) from the rule module first
            import ctparse.time.rules as _TR
            _TR.__dict__.pop("int", None)
            lift = getattr(mod, req["lift"])
            la = lift(*args, **kwargs)
            # lift returns {"reproduced": bool, ...details}
            out["api"] = "reproduced" if la.get("reproduced") else "not-reproduced"
            out["api_detail"] = {k: v for k, v in la.items() if k != "reproduced"}
        except Exception as e:
            out["api"] = "error"
            out["api_detail"] = traceback.format_exc()[-600:]
    print(json.dumps(out, default=str))


if __name__ == "__main__":
    main()
