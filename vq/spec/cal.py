"""Calendar specification, independent of datetime/dateutil: pure integer arithmetic
(proleptic Gregorian), usable both concretely and under CrossHair."""


def is_leap(y: int) -> bool:
    return y % 4 == 0 and (y % 100 != 0 or y % 400 == 0)


def mdays(y, m: int) -> int:
    """days of month m in year y; y None (no year written) admits 29 Feb."""
    if m == 2:
        if y is None:
            return 29
        return 29 if is_leap(y) else 28
    if m == 4 or m == 6 or m == 9 or m == 11:
        return 30
    return 31


def days_from_civil(y: int, m: int, d: int) -> int:
    """days since 1970-01-01 (Hinnant's algorithm)"""
    y = y - (1 if m <= 2 else 0)
    era = y // 400
    yoe = y - era * 400
    mp = m - 3 if m > 2 else m + 9
    doy = (153 * mp + 2) // 5 + d - 1
    doe = yoe * 365 + yoe // 4 - yoe // 100 + doy
    return era * 146097 + doe - 719468


def weekday(y: int, m: int, d: int) -> int:
    """Monday = 0"""
    return (days_from_civil(y, m, d) + 3) % 7


def add_days_small(y: int, m: int, d: int, n: int):
    """(y, m, d) + n days for -28 <= n <= 28 by carry arithmetic (at most one month step)"""
    d2 = d + n
    if d2 < 1:
        if m == 1:
            y, m = y - 1, 12
        else:
            m = m - 1
        return y, m, d2 + mdays(y, m)
    md = mdays(y, m)
    if d2 > md:
        d2 -= md
        if m == 12:
            return y + 1, 1, d2
        return y, m + 1, d2
    return y, m, d2


def add_months(y: int, m: int, d: int, n: int):
    """calendar month addition, day clipped to the target month's end (the code's
    convention for '31 Jan + 1 month', kept as the specification)"""
    t = (y * 12 + (m - 1)) + n
    y2, m2 = t // 12, t % 12 + 1
    md = mdays(y2, m2)
    return y2, m2, (d if d <= md else md)


def civil_from_days(z: int):
    z += 719468
    era = z // 146097
    doe = z - era * 146097
    yoe = (doe - doe // 1460 + doe // 36524 - doe // 146096) // 365
    y = yoe + era * 400
    doy = doe - (365 * yoe + yoe // 4 - yoe // 100)
    mp = (5 * doy + 2) // 153
    d = doy - (153 * mp + 2) // 5 + 1
    m = mp + 3 if mp < 10 else mp - 9
    return (y + (1 if m <= 2 else 0), m, d)


def valid_date(y, m, d) -> bool:
    return m is not None and d is not None and 1 <= m <= 12 and 1 <= d <= mdays(y, m)
