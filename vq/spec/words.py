"""Specification vocabularies (written from the property texts, independent of the rule module)."""

NUM_EN = ["one", "two", "three", "four", "five", "six", "seven", "eight", "nine", "ten", "eleven", "twelve", "thirteen", "fourteen",
          "fifteen", "sixteen", "seventeen", "eighteen", "nineteen", "twenty", "twentyone", "twentytwo", "twentythree", "twentyfour",
          "twentyfive", "twentysix", "twentyseven", "twentyeight", "twentynine", "thirty", "thirtyone"]
NUM_DE = ["ein", "zwei", "drei", "vier", "fünf", "sechs", "sieben", "acht", "neun", "zehn", "elf", "zwölf", "dreizehn", "vierzehn",
          "fünfzehn", "sechzehn", "siebzehn", "achtzehn", "neunzehn", "zwanzig", "einundzwanzig", "zweiundzwanzig", "dreiundzwanzig",
          "vierundzwanzig", "fünfundzwanzig", "sechsundzwanzig", "siebenundzwanzig", "achtundzwanzig", "neunundzwanzig", "dreißig",
          "einunddreißig"]
NUM_DE_ALT = {1: ["eine", "eins"], 30: ["dreissig"], 31: ["einunddreissig"]}
UNITS = {"minutes": ["minute", "minutes", "minuten"], "hours": ["hour", "hours", "stunde", "stunden"], "days": ["day", "days", "tag", "tage"],
         "nights": ["night", "nights", "nacht", "nächte"], "weeks": ["week", "weeks", "woche", "wochen"], "months": ["month", "months", "monat", "monate"]}
MONTHS_EN = ["january", "february", "march", "april", "may", "june", "july", "august", "september", "october", "november", "december"]
MONTHS_DE = ["januar", "februar", "märz", "april", "mai", "juni", "juli", "august", "september", "oktober", "november", "dezember"]
HOURS_EN = ["one", "two", "three", "four", "five", "six", "seven", "eight", "nine", "ten", "eleven", "twelve"]
HOURS_DE = ["eins", "zwei", "drei", "vier", "fünf", "sechs", "sieben", "acht", "neun", "zehn", "elf", "zwölf"]
DOW_EN = ["monday", "tuesday", "wednesday", "thursday", "friday", "saturday", "sunday"]
DOW_DE = ["montag", "dienstag", "mittwoch", "donnerstag", "freitag", "samstag", "sonntag"]
JOINERS = ["-", "to", "bis", "until", "and", "und"]
CONNECT = ["at", "um", "am", "on"]
