"""The artifact invariant WF (DESIGN §4), written from the text of property C02."""
from .cal import mdays

YEAR_LO, YEAR_HI = 1800, 2200


def wf_time(t, pods, calendar: bool = True, pod_table: bool = True) -> bool:
    """WF(Time).  calendar=False / pod_table=False give the weak invariant WF- used by the
    totality obligations of C01 (so that a crash is found rather than assumed away)."""
    if t.year is not None and not (YEAR_LO <= t.year <= YEAR_HI):
        return False
    if t.month is not None and not (1 <= t.month <= 12):
        return False
    if t.day is not None and not (1 <= t.day <= 31):
        return False
    if t.hour is not None and not (0 <= t.hour <= 23):
        return False
    if t.minute is not None and not (0 <= t.minute <= 59):
        return False
    if t.DOW is not None and not (0 <= t.DOW <= 6):
        return False
    if pod_table and t.POD is not None and t.POD not in pods:
        return False
    if calendar and t.month is not None and t.day is not None and t.day > mdays(t.year, t.month):
        return False
    return True


def key_time(t):
    """value of a Time as a tuple (span excluded)"""
    return (t.year, t.month, t.day, t.hour, t.minute, t.DOW, t.POD)


def dt_key(t):
    """ordering key of a fully dated Time via its start accessor semantics (hour/minute default 0)"""
    return (t.year, t.month, t.day, t.hour or 0, t.minute or 0)
