"""Regenerates /verif/MANIFEST.json from the per-property metadata below (python3 -m vq.manifest)."""
import json
import os

VERIF = os.path.dirname(os.path.dirname(os.path.abspath(__file__)))

BASELINE = ("cd /repo && /venv/bin/python -m pytest -ra -q -p no:cacheprovider --timeout=900 "
            "--continue-on-collection-errors")

LEVEL = ("bounded symbolic verification: the deciding step is a solver verdict (z3 through CrossHair's symbolic "
         "execution of the real Python functions, or z3 directly on encodings regenerated from the live "
         "source) over all values inside the bounds stated per obligation; counterexamples are replayed on the "
         "unmodified code before being reported. Not a proof (bounds), not sampling.")

# property -> (technique, level_note, design_ref)
CLAIMED = {
    "C03": ("CrossHair/z3 symbolic execution of the real relative-day rule bodies + real dateutil vs. independent integer calendar spec; year x month case split",
            "Trusted: CrossHair's datetime model (confirmations), the regex engine and the ranking that connect a surface form to the rule (exercised only in replay). Bounds: reference instants 2016-2043; quick tier covers 6 year-month cells / 4 years for the split obligations, thorough all 336 / 28.",
            "§5 C03"),
    "C04": ("CrossHair/z3 symbolic execution of ruleLatentDOW/DOM/DOY/POD + real dateutil vs. exact nearest-future-date oracle in integer arithmetic; year x month case split",
            "Trusted: CrossHair's datetime model, regex engine and ranking (replay only). Not covered: ruleDOWDOM (rrule not executable symbolically). Bounds: quick 24 year-month cells (2023, 2024) for day-of-month / day+month, 6 cells for weekdays, 4 years for parts of day; thorough all 336 cells / 28 years.",
            "§5 C04"),
    "C06": ("CrossHair/z3 symbolic execution of all clock rule bodies (am/pm, military, named, quarter/half, hour+part of day) and of _latent_tod vs. exact contracts; z3 token lemmas (named hours, hour/minute ranges); API-level notation equivalence over symbolic pool indices",
            "Trusted: regex group texts denote the stub's integers (token lemmas), CrossHair's datetime model, ranking (replay only). Bounds: all hours/minutes/13 am-pm spellings/all table parts of day; latent anchoring over 24 year-month cells quick, 336 thorough.",
            "§5 C06"),
    "C02": ("CrossHair/z3 symbolic execution of every registered rule wrapper on every admissible argument-shape tuple: inductive invariant WF (one step from an arbitrary well-formed state); shape closure as solver-checked fixpoint",
            "Trusted: regex engine contract (group texts lie in their group's language; ranges derived from the live pattern AST), CrossHair's datetime model. Not covered: ruleDOWDOM (rrule). Bounds: top-level years 1880..2109; quick: <= 4 shape tuples per rule, 6 parts of day, date-arithmetic rules on the cell 2024-02 with amounts <= 40; thorough: all tuples, all parts of day for single-POD obligations, 4 cells, amounts <= 120.",
            "§4 WF, §5 C02"),
    "C01": ("CrossHair/z3: 'raises nothing' clause of the WF family over every rule wrapper, accessors, latent post-processing; result construction/rendering on a scripted stream; scorer fallback; duration overflow",
            "Trusted: regex engine contract; WF as precondition (inductive by C02). Not covered: free Unicode text as a solver variable, rrule rule, debug=True generator return. Search-layer totality is decided by the C13-C15 obligations.",
            "§5 C01"),
    "C05": ("CrossHair/z3 symbolic execution of the absolute-date rule bodies on group stubs vs. exact contracts; two-reference-time equality (TS-INDEP); z3 token lemmas (month names, numeric group ranges); API-level notation equivalence over symbolic pool indices",
            "Trusted: token lemmas (group text denotes the written integer), ranking. Bounds: dates 1900..2029 (two-digit years as 2000+yy), reference years 1970..2100.",
            "§5 C05"),
    "C07": ("CrossHair/z3 symbolic execution of the range rules and of _latent_time_interval vs. exact ordering/wrap contracts; API-level range / half-open obligations with symbolic pool indices steering untraced runs of the real parser",
            "Trusted: WF of arguments incl. the clause 'a clock interval never has start hour > end hour with both <= 12' (inductive, checked in C02), CrossHair's datetime model. Bounds: dates 1990..2029; date+clock ranges on 2 year-month cells quick / 24 thorough; latent ranges on the last two days of those months.",
            "§5 C07"),
    "C08": ("CrossHair/z3 symbolic execution of the duration rules; end date compared with start + N units through an independent day-number relation; z3 token lemmas for number words, units and the digit group",
            "Trusted: token lemmas for amount / number-word / unit groups. Bounds: N <= 40 (months <= 13) quick, <= 120 thorough; start dates on 2 / 8 year-month cells.",
            "§5 C08"),
    "C20": ("CrossHair/z3 symbolic execution of the date+clock / date+part-of-day / dayname+date / connector rules vs. exact composition contract; z3 connector-word lemmas; API-level composition over symbolic pool indices (15 day expressions x 9 clocks x connectors x orders)",
            "Trusted: the day part and the clock part alone resolve as C03-C06 state; ranking of the glued reading. Bounds: every valid date 1880..2109, every hour/minute.",
            "§5 C20"),
    "C18": ("CrossHair/z3: a == b iff same kind and equal value fields for two symbolic artifacts with arbitrary spans; equal values hash equal (real __hash__ with an injective stand-in for the built-in)",
            "Trusted: Python's tuple hashing maps equal tuples to equal values. Bounds: Time a over 9 presence masks (quick) / all 128 (thorough) x Time b over all 128; years 0..9999; Duration amounts 0..10^4. Printed-form injectivity/round trip: see STR obligations when present.",
            "§5 C18"),
    "C13": ("CrossHair/z3 over the expiry index of a stub clock: every point between two consecutive clock reads of the real parser (real rule base) on fixed texts; the parser runs untraced, the solver covers all k",
            "Trusted: the parser reads time only through ctparse.timers.perf_counter; CrossHair's NoTracing semantics. Bounds: texts 'tomorrow 8pm', '9 9', '9 9 9' (quick) + 'mon 8', '9', 'mon 8 9', 'heute 9 uhr 30' (thorough; '9 9 9 9' with 3233 clock reads x 2 runs per path was measured at > 15 CPU-minutes per 60-read chunk and dropped); constant scorer; integer clock ticks for timers.timeout.",
            "§5 C13"),
    "C09": ("z3 regular-expression theory on translations of the 41 live rule patterns (token lemmas, unbounded strings) + CrossHair on RegexMatch span trimming + API-level differential over symbolic pool indices",
            "Trusted: regex engine contract; \\w modelled up to U+024F; translator validated against every real match on corpus texts on each run. Bounds: EMBED pools 12 expressions x 0..2 inert words each side (2 words quick / 3 thorough).",
            "§5 C09"),
    "C12": ("CrossHair/z3: FRAME clause of the WF family (arguments incl. spans untouched, no aliasing), stream interleaving under every 8-step schedule, two-call history forms, model frame; API-level history over symbolic pool indices",
            "Not applicable inside this property: OS threads, PYTHONHASHSEED, fresh-process equality (no installed engine makes them solver variables). Bounds: toy registry for interleaving; one earlier call at API level; quick: 1 argument-shape tuple per rule.",
            "§5 C12"),
    "C14": ("CrossHair/z3: SELECT on scripted streams with symbolic real scores, DEDUP inside STREAM for every scorer order, score formula with stubbed log (argument in (0,1]); ground check of the shipped model's parameters",
            "Trusted: floats as reals (|score| <= 1e6). Bounds: streams <= 4 candidates; toy registry; texts <= 8 chars for the score formula.",
            "§5 C14"),
    "C15": ("CrossHair/z3 symbolic execution of the real search functions: STACK-GRAPH over every adjacency table, STACK-ADJ over symbolic spans, WINDOW, PREFILTER, APPLY, COVER, STREAM (FullyReduced <= streamed <= Derivable, TRACE, for every scorer order); FRAME for every rule wrapper",
            "Trusted: toy registry restricted to what FRAME/WF establish for real rules. Bounds: n <= 4 matches (5 thorough) in STACK-GRAPH; sequences <= 4, patterns <= 3; STREAM 3 matches, first 3 (quick) / 5 (thorough) scorer values symbolic, depths 0/1/10.",
            "§5 C15"),
    "C16": ("E4 shadow execution of nb_estimator over z3 terms (log/exp uninterpreted) vs. textbook formulas; CrossHair on n-gram/count/vocabulary plumbing and the score formula",
            "Not applicable inside: pickle/bz2 save-reload. Assumes both classes occur in the training set. Bounds: shapes up to 4 features x 2+2 aggregate documents (quick), 5 x 3+3 (thorough); counts arbitrary.",
            "§5 C16"),
    "C17": ("CrossHair on make_partial_rule_dataset with a scripted candidate stream; E4/z3 nlsat: duplication monotonicity as a polynomial inequality obtained by running the real likelihood/prior constructors in log-of-product normal form",
            "Bounds: <= 2 candidates, productions <= 3; MONO for traces with <= 2 (quick) / <= 3 (thorough) distinct n-gram features.",
            "§5 C17"),
    "C10": ("E3: z3 over strings of N symbolic characters for the two label scanners (patterns re-read from the sources); API-level differential over symbolic pool indices for subject/labels on match and no-match paths",
            "Trusted: the property's own precondition (valid, separator-delimited hashtags). Bounds: N <= 7 (quick) / 9 (thorough) characters over 8 classes; pools of 2-3 words / hashtags / separators, 1..2 pieces.",
            "§5 C10"),
    "C11": ("E3: _preprocess_string as a z3 transducer over N symbolic code points with class predicates tied to the real compiled classes; class agreement with the Unicode-category specification; E2 TOK-CASE; API differential over pool indices",
            "Trusted: leftmost-greedy = maximal-run scanning for single-class '+' patterns (shape checked on every run); class tables read from the compiled classes. Bounds: N <= 8 (quick) / 11 (thorough) code points; case mappings of equal length.",
            "§5 C11"),
    "C19": ("z3 regular-expression theory: no zero-length match under any context, every pattern language non-empty; CrossHair POD-CLOSED; shape-fixpoint liveness of every rule; ground structural facts on registry vs. syntax tree and model vocabulary",
            "The structural facts have no quantifier and are evaluated as ground assertions (engine 'ground' in the evidence).",
            "§5 C19"),
}

NOT_YET = {}


def main():
    props = [json.loads(l)["id"] for l in open(os.path.join(VERIF, "properties.jsonl"))]
    checks = []
    for p in props:
        if p not in CLAIMED:
            continue
        tech, note, ref = CLAIMED[p]
        checks.append({
            "property_id": p,
            "quick_cmd": "./vq-check {} --tier quick".format(p),
            "thorough_cmd": "./vq-check {} --tier thorough".format(p),
            "evidence_file": "/verif/evidence/{}.json".format(p),
            "replay_cmd_template": "./vq-check --replay {path}",
            "engine": "vq",
            "level_claimed": {"category": "other", "text": LEVEL, "design_ref": ref},
            "level_note": note,
            "technique": tech,
        })
    na = [{"property_id": p, "reason": NOT_YET.get(p, "check not built yet in this session; see DESIGN.md §5 for the planned obligations")}
          for p in props if p not in CLAIMED]
    man = {
        "version": 1,
        "setup_cmd": "./setup.sh",
        "hooks": {"guard": "QUICKADD_VERIF", "enable": "no source hooks are needed: harnesses reach the real functions through the live rule registry and module attributes",
                  "baseline_off_cmd": BASELINE, "source_commits": [], "add_only": True},
        "engines": [{"name": "vq", "path": "/verif/vq", "serves_properties": sorted(CLAIMED),
                     "kind_free_text": "solver-based checking of the real code: CrossHair (symbolic execution of the repository's Python functions with z3) and direct z3 encodings regenerated from the live source"}],
        "checks": checks,
        "not_applicable": na,
        "notes": "Exit codes of ./vq-check: 0 holds within bounds, 1 replay-confirmed violation, 3 inconclusive (never reported as success). KNOWN-FINDING lines: C06 ('9 in the morning' ranking), C20 (beam pruning of a long composition). 84 seeded changes under /verif/seeded (83 caught; the thread race R2C12B is outside the technique). tools/mutant.py tries a change in a scratch worktree.",
    }
    with open(os.path.join(VERIF, "MANIFEST.json"), "w") as fd:
        json.dump(man, fd, indent=1)
    print("MANIFEST.json: {} checks, {} not applicable".format(len(checks), len(na)))


if __name__ == "__main__":
    main()
