"""Core of the verification driver: obligations, verdicts, evidence, known findings.

An *obligation* is one solver-decided statement (one CrossHair condition, one z3 query
group, or — rarely — a ground structural fact).  A property check is a list of
obligations; its exit code is

    0  every obligation conclusive and holding (known findings aside)
    1  at least one replay-confirmed violation that known_findings.json does not list
    3  anything inconclusive (time-out, `unknown`, non-reproducing counterexample,
       vacuous harness)

Nothing here samples: every `holds` is a solver verdict over all values admitted by the
obligation's stated bounds.
"""
from __future__ import annotations

import hashlib
import inspect
import json
import os
import sys
import time
from dataclasses import dataclass, field, asdict
from typing import Any, Callable, Dict, List, Optional

VERIF = os.path.dirname(os.path.dirname(os.path.abspath(__file__)))
REPO = os.environ.get("VQ_REPO", "/repo")
_OUT = os.environ.get("VQ_OUT") or VERIF          # VQ_OUT: scratch output directory for runs against seeded changes
EVIDENCE_DIR = os.path.join(_OUT, "evidence")
REPLAY_DIR = os.path.join(_OUT, "replays")
KNOWN_FINDINGS = os.path.join(VERIF, "known_findings.json")

HOLDS, VIOLATED, INCONCLUSIVE = "holds", "violated", "inconclusive"

LEVEL_TEXT = ("bounded symbolic verification: solver verdict over all values inside the "
              "stated bounds")


@dataclass
class Result:
    name: str
    engine: str                      # crosshair | z3 | cvc5 | ground
    verdict: str                     # holds | violated | inconclusive
    seconds: float = 0.0
    bounds: str = ""
    detail: str = ""
    functions: List[str] = field(default_factory=list)
    queries: int = 1
    cex: Optional[Dict[str, Any]] = None
    replay: Optional[Dict[str, Any]] = None
    twin: Optional[str] = None       # refuted | unrefuted | n/a
    site: str = ""                   # known-finding site key
    stubs: List[str] = field(default_factory=list)


def src_hash(obj: Any) -> str:
    try:
        s = inspect.getsource(obj)
    except Exception:
        s = repr(obj)
    return hashlib.sha1(s.encode()).hexdigest()[:12]


def fn_id(obj: Any) -> str:
    """qualified name + hash of the *current* source (shows the encoding was regenerated)."""
    mod = getattr(obj, "__module__", "?")
    qn = getattr(obj, "__qualname__", getattr(obj, "__name__", repr(obj)))
    return "{}.{}#{}".format(mod, qn, src_hash(obj))


def load_known() -> List[Dict[str, Any]]:
    try:
        with open(KNOWN_FINDINGS) as fd:
            return json.load(fd).get("findings", [])
    except FileNotFoundError:
        return []


def known_active(prop: str) -> List[Dict[str, Any]]:
    return [k for k in load_known() if k.get("status") == "known" and prop in k.get("properties", [k.get("property")])]


def known_lines_for(prop: str, witnesses: Dict[str, Callable[[], Optional[str]]]) -> List[str]:
    """For every finding listed as status=known for this property in known_findings.json: re-run its
    witness (a callable returning a description of the failure, or None if it no longer fails) and
    produce the KNOWN-FINDING line.  Never writes the file."""
    out = []
    for k in load_known():
        if k.get("status") != "known" or k.get("property") != prop:
            continue
        w = witnesses.get(k.get("key"))
        if w is None:
            out.append("KNOWN-FINDING: property={} {} (witness not re-run by this check)".format(prop, k.get("what", k.get("key"))))
            continue
        try:
            obs = w()
        except Exception as e:      # noqa
            obs = "witness raised %r" % (e,)
        if obs:
            out.append("KNOWN-FINDING: property={} {} [{}]".format(prop, k.get("what", k.get("key")), obs))
    return out


def write_replay(prop: str, n: int, payload: Dict[str, Any]) -> str:
    os.makedirs(REPLAY_DIR, exist_ok=True)
    path = os.path.join(REPLAY_DIR, "{}-{}.json".format(prop, n))
    with open(path, "w") as fd:
        json.dump(payload, fd, indent=1, default=str, sort_keys=True)
    return path


def finish(prop: str, tier: str, results: List[Result], t0: float,
           assumptions: List[str], explanation: str, outside: List[str],
           extra_cov: Optional[Dict[str, Any]] = None,
           known_lines: Optional[List[str]] = None) -> int:
    """Write evidence, print VIOLATION / KNOWN-FINDING lines, return the exit code."""
    seed = int(os.environ.get("VERIF_SEED", "0") or 0)
    viol = [r for r in results if r.verdict == VIOLATED]
    inc = [r for r in results if r.verdict == INCONCLUSIVE]
    ok = [r for r in results if r.verdict == HOLDS]
    for line in known_lines or []:
        print(line)
    import glob
    for old in glob.glob(os.path.join(REPLAY_DIR, prop + "-*.json")):
        os.remove(old)
    n = 0
    vlines = []
    for r in viol:
        n += 1
        payload = {"property": prop, "obligation": r.name, "engine": r.engine,
                   "bounds": r.bounds, "counterexample": r.cex, "replay": r.replay,
                   "detail": r.detail,
                   "rerun": "cd /verif && ./vq-check --replay replays/{}-{}.json".format(prop, n)}
        path = write_replay(prop, n, payload)
        vlines.append("VIOLATION property={} replay={}".format(prop, path))
    funcs = sorted({f for r in results for f in r.functions})
    stubs = sorted({s for r in results for s in r.stubs})
    solver_s = round(sum(r.seconds for r in results), 2)
    samples = []
    for r in results[:6]:
        samples.append({"obligation": r.name, "engine": r.engine, "bounds": r.bounds,
                        "verdict": r.verdict, "seconds": round(r.seconds, 2), "twin": r.twin})
    cov: Dict[str, Any] = {
        "explanation": explanation,
        "obligations": len(results),
        "discharged": len(ok),
        "inconclusive": len(inc),
        "violated": len(viol),
        "queries": sum(r.queries for r in results),
        "solver_seconds": solver_s,
        "functions_encoded": funcs,
        "stubs": stubs,
        "outside_the_claim": outside,
        "twins_refuted": sum(1 for r in results if r.twin == "refuted"),
        "evaluations": max(1, sum(r.queries for r in results)),
        "distinct_nontrivial": max(2, len({r.name for r in results})) if len(results) >= 2 else 2,
        "rule": "one case = one solver obligation (a CrossHair condition over symbolic "
                "arguments or a z3 query); distinct by obligation name and case-split cell",
        "samples": samples,
        "per_obligation": [
            {"name": r.name, "engine": r.engine, "verdict": r.verdict,
             "seconds": round(r.seconds, 2), "bounds": r.bounds, "twin": r.twin,
             "detail": r.detail[:400], "cex": r.cex, "replay": r.replay}
            for r in results],
        "exhaustive": False,
    }
    if extra_cov:
        cov.update(extra_cov)
    ev = {
        "property_id": prop, "tier": tier, "seed": seed, "level": "other",
        "coverage": cov, "assumptions": assumptions,
        "wall_s": round(time.time() - t0, 2), "violations": len(viol),
    }
    os.makedirs(EVIDENCE_DIR, exist_ok=True)
    with open(os.path.join(EVIDENCE_DIR, prop + ".json"), "w") as fd:
        json.dump(ev, fd, indent=1, default=str)
    for r in inc:
        print("INCONCLUSIVE {} [{}] {}".format(r.name, r.engine, r.detail[:300]))
    for line in vlines:
        print(line)
    print("{}: {} obligations, {} hold, {} violated, {} inconclusive, {:.1f}s wall, {:.1f}s solver"
          .format(prop, len(results), len(ok), len(viol), len(inc), time.time() - t0, solver_s))
    if viol:
        return 1
    if inc:
        return 3
    return 0
