"""C03 — relative-day rules against independent calendar arithmetic.

Class A (plain day arithmetic): the whole range 2016..2043 is symbolic.
Class C (weekday arithmetic): year and month are the concrete cell VQ_Y / VQ_M; day, time of
day (incl. seconds) and the weekday are symbolic.
"""
from datetime import datetime

from vq.harness.common import body, NOMATCH, Time, CELL_Y, CELL_M, parse
from vq.spec.cal import mdays, add_days_small, weekday
from vq.spec.wf import key_time

WD1 = weekday(CELL_Y, CELL_M, 1)      # weekday of the first of the cell's month (concrete)
MD = mdays(CELL_Y, CELL_M)

_today = body("ruleToday")
_now = body("ruleNow")
_tomorrow = body("ruleTomorrow")
_aftertomorrow = body("ruleAfterTomorrow")
_yesterday = body("ruleYesterday")
_beforeyesterday = body("ruleBeforeYesterday")
_eom = body("ruleEOM")
_eoy = body("ruleEOY")
_atdow = body("ruleAtDOW")
_latentdow = body("ruleLatentDOW")
_nextdow = body("ruleNextDOW")
_downextweek = body("ruleDOWNextWeek")


def _date_only(r, ymd) -> bool:
    return r is not None and type(r) is Time and key_time(r) == (ymd[0], ymd[1], ymd[2], None, None, None, None)


# ------------------------------------------------------------------ class A

def exp_shift(y, mo, d, n):
    return add_days_small(y, mo, d, n)


def ob_today(y: int, mo: int, d: int, h: int, mi: int, s: int) -> bool:
    """
    pre: 2016 <= y <= 2043 and 1 <= mo <= 12 and 1 <= d <= mdays(y, mo)
    pre: 0 <= h <= 23 and 0 <= mi <= 59 and 0 <= s <= 59
    post: _
    """
    return _date_only(_today(datetime(y, mo, d, h, mi, s), NOMATCH), (y, mo, d))


def ob_now(y: int, mo: int, d: int, h: int, mi: int, s: int) -> bool:
    """
    pre: 2016 <= y <= 2043 and 1 <= mo <= 12 and 1 <= d <= mdays(y, mo)
    pre: 0 <= h <= 23 and 0 <= mi <= 59 and 0 <= s <= 59
    post: _
    """
    r = _now(datetime(y, mo, d, h, mi, s), NOMATCH)
    return r is not None and type(r) is Time and key_time(r) == (y, mo, d, h, mi, None, None)


def ob_tomorrow(y: int, mo: int, d: int, h: int, mi: int, s: int) -> bool:
    """
    pre: 2016 <= y <= 2043 and 1 <= mo <= 12 and 1 <= d <= mdays(y, mo)
    pre: 0 <= h <= 23 and 0 <= mi <= 59 and 0 <= s <= 59
    post: _
    """
    return _date_only(_tomorrow(datetime(y, mo, d, h, mi, s), NOMATCH), exp_shift(y, mo, d, 1))


def ob_aftertomorrow(y: int, mo: int, d: int, h: int, mi: int, s: int) -> bool:
    """
    pre: 2016 <= y <= 2043 and 1 <= mo <= 12 and 1 <= d <= mdays(y, mo)
    pre: 0 <= h <= 23 and 0 <= mi <= 59 and 0 <= s <= 59
    post: _
    """
    return _date_only(_aftertomorrow(datetime(y, mo, d, h, mi, s), NOMATCH), exp_shift(y, mo, d, 2))


def ob_yesterday(y: int, mo: int, d: int, h: int, mi: int, s: int) -> bool:
    """
    pre: 2016 <= y <= 2043 and 1 <= mo <= 12 and 1 <= d <= mdays(y, mo)
    pre: 0 <= h <= 23 and 0 <= mi <= 59 and 0 <= s <= 59
    post: _
    """
    return _date_only(_yesterday(datetime(y, mo, d, h, mi, s), NOMATCH), exp_shift(y, mo, d, -1))


def ob_beforeyesterday(y: int, mo: int, d: int, h: int, mi: int, s: int) -> bool:
    """
    pre: 2016 <= y <= 2043 and 1 <= mo <= 12 and 1 <= d <= mdays(y, mo)
    pre: 0 <= h <= 23 and 0 <= mi <= 59 and 0 <= s <= 59
    post: _
    """
    return _date_only(_beforeyesterday(datetime(y, mo, d, h, mi, s), NOMATCH), exp_shift(y, mo, d, -2))


def ob_eom(y: int, mo: int, d: int, h: int, mi: int, s: int) -> bool:
    """
    pre: 2016 <= y <= 2043 and 1 <= mo <= 12 and 1 <= d <= mdays(y, mo)
    pre: 0 <= h <= 23 and 0 <= mi <= 59 and 0 <= s <= 59
    post: _
    """
    return _date_only(_eom(datetime(y, mo, d, h, mi, s), NOMATCH), (y, mo, mdays(y, mo)))


def ob_eoy(y: int, mo: int, d: int, h: int, mi: int, s: int) -> bool:
    """
    pre: 2016 <= y <= 2043 and 1 <= mo <= 12 and 1 <= d <= mdays(y, mo)
    pre: 0 <= h <= 23 and 0 <= mi <= 59 and 0 <= s <= 59
    post: _
    """
    return _date_only(_eoy(datetime(y, mo, d, h, mi, s), NOMATCH), (y, 12, 31))


# ------------------------------------------------------------------ class C (cell)

def exp_this(d, x):
    """first weekday x strictly after day d of the cell month"""
    wd = (WD1 + d - 1) % 7
    delta = (x - wd) % 7
    if delta == 0:
        delta = 7
    return add_days_small(CELL_Y, CELL_M, d, delta)


def exp_next(d, x):
    """first weekday x on or after (day d of the cell month) + 7 days"""
    wd = (WD1 + d - 1) % 7
    return add_days_small(CELL_Y, CELL_M, d, 7 + (x - wd) % 7)


def ob_atdow(d: int, h: int, mi: int, s: int, x: int) -> bool:
    """
    pre: 1 <= d <= MD and 0 <= h <= 23 and 0 <= mi <= 59 and 0 <= s <= 59 and 0 <= x <= 6
    post: _
    """
    return _date_only(_atdow(datetime(CELL_Y, CELL_M, d, h, mi, s), NOMATCH, Time(DOW=x)), exp_this(d, x))


def ob_latentdow(d: int, h: int, mi: int, s: int, x: int) -> bool:
    """
    pre: 1 <= d <= MD and 0 <= h <= 23 and 0 <= mi <= 59 and 0 <= s <= 59 and 0 <= x <= 6
    post: _
    """
    return _date_only(_latentdow(datetime(CELL_Y, CELL_M, d, h, mi, s), Time(DOW=x)), exp_this(d, x))


def ob_nextdow(d: int, h: int, mi: int, s: int, x: int) -> bool:
    """
    pre: 1 <= d <= MD and 0 <= h <= 23 and 0 <= mi <= 59 and 0 <= s <= 59 and 0 <= x <= 6
    post: _
    """
    return _date_only(_nextdow(datetime(CELL_Y, CELL_M, d, h, mi, s), NOMATCH, Time(DOW=x)), exp_next(d, x))


def ob_downextweek(d: int, h: int, mi: int, s: int, x: int) -> bool:
    """
    pre: 1 <= d <= MD and 0 <= h <= 23 and 0 <= mi <= 59 and 0 <= s <= 59 and 0 <= x <= 6
    post: _
    """
    return _date_only(_downextweek(datetime(CELL_Y, CELL_M, d, h, mi, s), Time(DOW=x), NOMATCH), exp_next(d, x))


# ------------------------------------------------------------------ API-level replay (lift)


DAYS_EN = ["monday", "tuesday", "wednesday", "thursday", "friday", "saturday", "sunday"]
DAYS_DE = ["montag", "dienstag", "mittwoch", "donnerstag", "freitag", "samstag", "sonntag"]

FORMS = {
    "today": ["today", "heute"],
    "now": ["now", "jetzt", "right now"],
    "tomorrow": ["tomorrow", "tmrw"],
    "aftertomorrow": ["übermorgen"],
    "yesterday": ["yesterday", "gestern"],
    "beforeyesterday": ["vorgestern"],
    "eom": ["end of month", "EOM", "ende des monats"],
    "eoy": ["end of year", "EOY", "jahresende"],
    "atdow": ["this {en}", "on {en}", "am {de}", "diesen {de}"],
    "latentdow": ["{en}", "{de}"],
    "nextdow": ["next {en}", "nächsten {de}", "kommenden {de}"],
    "downextweek": ["{en} next week", "{de} nächste woche"],
}


def _api(forms, ts, expected, x=None):
    tried = []
    for f in forms:
        text = f.format(en=DAYS_EN[x], de=DAYS_DE[x]) if x is not None else f
        p = parse(text, ts)
        got = None if p is None or p.resolution is None else key_time(p.resolution) if isinstance(p.resolution, Time) else str(p.resolution)
        tried.append({"text": text, "ts": ts.isoformat(), "expected": list(expected), "observed": got})
        if got != tuple(expected):
            return {"reproduced": True, "witness": tried[-1], "tried": tried}
    return {"reproduced": False, "tried": tried}


def _full(y, mo, d, h, mi, s):
    return datetime(y, mo, d, h, mi, s)


def lift_today(y, mo, d, h, mi, s):
    return _api(FORMS["today"], _full(y, mo, d, h, mi, s), (y, mo, d, None, None, None, None))


def lift_now(y, mo, d, h, mi, s):
    return _api(FORMS["now"], _full(y, mo, d, h, mi, s), (y, mo, d, h, mi, None, None))


def lift_tomorrow(y, mo, d, h, mi, s):
    return _api(FORMS["tomorrow"], _full(y, mo, d, h, mi, s), exp_shift(y, mo, d, 1) + (None,) * 4)


def lift_aftertomorrow(y, mo, d, h, mi, s):
    return _api(FORMS["aftertomorrow"], _full(y, mo, d, h, mi, s), exp_shift(y, mo, d, 2) + (None,) * 4)


def lift_yesterday(y, mo, d, h, mi, s):
    return _api(FORMS["yesterday"], _full(y, mo, d, h, mi, s), exp_shift(y, mo, d, -1) + (None,) * 4)


def lift_beforeyesterday(y, mo, d, h, mi, s):
    return _api(FORMS["beforeyesterday"], _full(y, mo, d, h, mi, s), exp_shift(y, mo, d, -2) + (None,) * 4)


def lift_eom(y, mo, d, h, mi, s):
    return _api(FORMS["eom"], _full(y, mo, d, h, mi, s), (y, mo, mdays(y, mo)) + (None,) * 4)


def lift_eoy(y, mo, d, h, mi, s):
    return _api(FORMS["eoy"], _full(y, mo, d, h, mi, s), (y, 12, 31) + (None,) * 4)


def _cell(d, h, mi, s):
    return datetime(CELL_Y, CELL_M, d, h, mi, s)


def lift_atdow(d, h, mi, s, x):
    return _api(FORMS["atdow"], _cell(d, h, mi, s), exp_this(d, x) + (None,) * 4, x)


def lift_latentdow(d, h, mi, s, x):
    return _api(FORMS["latentdow"], _cell(d, h, mi, s), exp_this(d, x) + (None,) * 4, x)


def lift_nextdow(d, h, mi, s, x):
    return _api(FORMS["nextdow"], _cell(d, h, mi, s), exp_next(d, x) + (None,) * 4, x)


def lift_downextweek(d, h, mi, s, x):
    return _api(FORMS["downextweek"], _cell(d, h, mi, s), exp_next(d, x) + (None,) * 4, x)


# ------------------------------------------------------------------ class B (year concrete)

def ob_tomorrow_y(mo: int, d: int, h: int, mi: int, s: int) -> bool:
    """
    pre: 1 <= mo <= 12 and 1 <= d <= mdays(CELL_Y, mo)
    pre: 0 <= h <= 23 and 0 <= mi <= 59 and 0 <= s <= 59
    post: _
    """
    return _date_only(_tomorrow(datetime(CELL_Y, mo, d, h, mi, s), NOMATCH), exp_shift(CELL_Y, mo, d, 1))


def lift_tomorrow_y(mo, d, h, mi, s):
    return lift_tomorrow(CELL_Y, mo, d, h, mi, s)


def ob_aftertomorrow_y(mo: int, d: int, h: int, mi: int, s: int) -> bool:
    """
    pre: 1 <= mo <= 12 and 1 <= d <= mdays(CELL_Y, mo)
    pre: 0 <= h <= 23 and 0 <= mi <= 59 and 0 <= s <= 59
    post: _
    """
    return _date_only(_aftertomorrow(datetime(CELL_Y, mo, d, h, mi, s), NOMATCH), exp_shift(CELL_Y, mo, d, 2))


def lift_aftertomorrow_y(mo, d, h, mi, s):
    return lift_aftertomorrow(CELL_Y, mo, d, h, mi, s)


def ob_yesterday_y(mo: int, d: int, h: int, mi: int, s: int) -> bool:
    """
    pre: 1 <= mo <= 12 and 1 <= d <= mdays(CELL_Y, mo)
    pre: 0 <= h <= 23 and 0 <= mi <= 59 and 0 <= s <= 59
    post: _
    """
    return _date_only(_yesterday(datetime(CELL_Y, mo, d, h, mi, s), NOMATCH), exp_shift(CELL_Y, mo, d, -1))


def lift_yesterday_y(mo, d, h, mi, s):
    return lift_yesterday(CELL_Y, mo, d, h, mi, s)


def ob_beforeyesterday_y(mo: int, d: int, h: int, mi: int, s: int) -> bool:
    """
    pre: 1 <= mo <= 12 and 1 <= d <= mdays(CELL_Y, mo)
    pre: 0 <= h <= 23 and 0 <= mi <= 59 and 0 <= s <= 59
    post: _
    """
    return _date_only(_beforeyesterday(datetime(CELL_Y, mo, d, h, mi, s), NOMATCH), exp_shift(CELL_Y, mo, d, -2))


def lift_beforeyesterday_y(mo, d, h, mi, s):
    return lift_beforeyesterday(CELL_Y, mo, d, h, mi, s)

