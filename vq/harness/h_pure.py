"""C12 / C14 — purity and scoring obligations that are functions of symbolic data."""
import copy
import math
import os
import sys
from datetime import datetime
from typing import Optional

import ctparse.ctparse  # noqa
from ctparse.rule import rules as REG, _regex, _regex_str, _str_regex
from ctparse.types import Time, Interval, Duration, pod_hours, Artifact, RegexMatch
from ctparse.scorer import DummyScorer
from crosshair.tracers import NoTracing, ResumedTracing

from vq.spec.cal import mdays, add_days_small
from vq.spec.wf import key_time

C = sys.modules["ctparse.ctparse"]
NS = sys.modules["ctparse.nb_scorer"]
PP = sys.modules["ctparse.partial_parse"]
TR = sys.modules["ctparse.time.rules"]

# ------------------------------------------------------------------ HIST (two-call form of rule contracts)

_w = lambda n: REG[n][0]


def ob_hist_rules(m1: int, dom1: int, h1: int, m2: int, dom2: int, h2: int, pm1: bool, pm2: bool) -> bool:
    """
    pre: 1 <= m1 <= 12 and 1 <= m2 <= 12 and 1 <= dom1 <= 28 and 1 <= dom2 <= 28 and 1 <= h1 <= 12 and 1 <= h2 <= 12
    post: _
    """
    from vq import wfgen as W
    W.install_int_stub()
    out = []
    ts = datetime(2023, 6, 15, 12, 0)
    for (m, dom, h, pm) in ((m1, dom1, h1, pm1), (m2, dom2, h2, pm2)):
        b = _w("ruleDOMMonth")(ts, Time(day=dom), Time(month=m))
        c = _w("ruleHHMM")(ts, W.StubMatch({"hour": W.Num(h), "ampm": "pm" if pm else "am"}))
        e = _w("ruleDateTOD")(ts, Time(year=2023, month=m, day=dom), c)
        f = _w("ruleTODTOD")(ts, Time(hour=h), W.StubMatch({}), Time(hour=dom % 12))
        out.append((key_time(b), key_time(c), key_time(e), key_time(f.t_from)))
    # the second call's results are what its own arguments dictate, whatever the first call was
    hh = (0 if h2 == 12 else h2) if not pm2 else (h2 if h2 == 12 else h2 + 12)
    return out[1] == ((None, m2, dom2, None, None, None, None), (None, None, None, hh, 0, None, None),
                      (2023, m2, dom2, hh, 0, None, None), (None, None, None, h2, None, None, None))


# ------------------------------------------------------------------ API-level history / option pool

POOL = ["tomorrow 8pm", "Zahnarzt Morgen 9 Uhr", "zahnarzt morgen 9 uhr", "9-5", "friday morning", "gargelbabel", "meet monday", "8:30 h pm", "meet monday #tag", "meet #tag monday"]
TS_POOL = [datetime(2018, 3, 7, 12, 43), datetime(2023, 1, 31, 23, 59, 59), datetime(2024, 2, 29, 0, 0)]
DEPTHS = [0, 1, 10]


def _snapshot():
    mdl = C._DEFAULT_SCORER._model if hasattr(C._DEFAULT_SCORER, "_model") else None
    voc = None if mdl is None else (tuple(sorted(mdl.transformer.vocabulary.items())),
                                    tuple(mdl.estimator.class_prior),
                                    tuple((k, tuple(v)) for k, v in sorted(mdl.estimator.log_likelihood.items())))
    return (tuple(REG), tuple(id(v[0]) for v in REG.values()), tuple(sorted(_regex)), tuple(sorted(_regex_str.items())),
            tuple(sorted(pod_hours.items())), voc)


def _api(ti, tsi, latent, di, fail=False):
    try:
        p = C.ctparse(POOL[ti], ts=TS_POOL[tsi], timeout=0, latent_time=latent, max_stack_depth=DEPTHS[di])
    except Exception as e:
        return ("EXC", type(e).__name__)
    return (str(p.resolution), p.production, p.subject, tuple(p.labels), None if p.score is None else round(p.score, 9))


_KEYS = [(ti, tsi, lat, di) for ti in range(len(POOL)) for tsi in range(len(TS_POOL)) for lat in (True, False) for di in range(len(DEPTHS))]


DUMMY_TEXTS = ["12.12.2020 8-10", "tomorrow 8pm", "friday morning 9-5", "meet monday"]


def dummy_table():
    """candidate streams under the constant scorer (ties everywhere): order-sensitive code shows here"""
    out = {}
    for t in DUMMY_TEXTS:
        st = [(str(c.resolution), c.production, (c.resolution.mstart, c.resolution.mend)) for c in
              C.ctparse_gen(t, ts=TS_POOL[0], timeout=0, scorer=DummyScorer(), max_stack_depth=0) if c is not None]
        p = C.ctparse(t, ts=TS_POOL[0], timeout=0, scorer=DummyScorer())
        out[t] = [st, str(p.resolution), p.production]
    return out


def solo_table(reverse=False):
    """reference results, computed by the check driver in FRESH processes (one in forward, one in
    reverse pool order) and handed over through VQ_SOLO: an in-process reference would itself be
    exposed to whatever history-dependence is being looked for"""
    ks = list(reversed(_KEYS)) if reverse else _KEYS
    return {repr(k): _api(*k) for k in ks}


with NoTracing():
    SNAP0 = _snapshot()
    if os.environ.get("VQ_SOLO") and os.path.exists(os.environ["VQ_SOLO"]):
        import json as _json
        with open(os.environ["VQ_SOLO"]) as _fd:
            _raw = _json.load(_fd)

        def _t(v):
            return tuple(_t(x) for x in v) if isinstance(v, list) else v
        SOLO = {k: _t(_raw[repr(k)]) for k in _KEYS}
    elif os.environ.get("VQ_SOLO_CHILD"):
        SOLO = {}            # the child only computes a table on request, in a process that has parsed nothing yet
    else:
        SOLO = {k: _api(*k) for k in _KEYS}
    ORDER_DIFF = []


def _pick(x, n):
    """realise a symbolic index under tracing (the solver covers every value)"""
    with ResumedTracing():
        for v in range(n):
            if x == v:
                return v
    return 0


WIDE = os.environ.get("VQ_WIDE", "0") == "1"


def ob_api_history(w_ti: int, w_ts: int, w_lat: bool, w_d: int, abandon: int, ti: int, tsi: int, lat: bool, di: int) -> bool:
    """
    pre: 0 <= w_ti < 10 and 0 <= w_ts < 3 and 0 <= w_d < 3 and 0 <= abandon <= 2 and 0 <= ti < 10 and 0 <= tsi < 3 and 0 <= di < 3
    pre: WIDE or (w_ts == 1 and w_lat and w_d == 0 and tsi == 0 and di == 2)
    post: _
    """
    with NoTracing():
        a = (_pick(w_ti, 10), _pick(w_ts, 3), bool(_pick(w_lat, 2)), _pick(w_d, 3))
        ab = _pick(abandon, 3)
        b = (_pick(ti, 10), _pick(tsi, 3), bool(_pick(lat, 2)), _pick(di, 3))
        # earlier call: complete, abandoned candidate stream, or a call that fails (bad argument)
        if ab == 0:
            _api(*a)
        elif ab == 1:
            g = C.ctparse_gen(POOL[a[0]], ts=TS_POOL[a[1]], timeout=0, latent_time=a[2], max_stack_depth=DEPTHS[a[3]])
            next(g, None)
            g.close()
        else:
            try:
                C.ctparse(POOL[a[0]], ts="not a datetime", timeout=0)
            except Exception:
                pass
        got = _api(*b)
        return not ORDER_DIFF and got == SOLO[b] and _snapshot() == SNAP0


def why_api_history(w_ti, w_ts, w_lat, w_d, abandon, ti, tsi, lat, di):
    if ORDER_DIFF:
        k = ORDER_DIFF[0]
        return "result of %r depends on what was parsed before: %r vs %r" % (POOL[k[0]], SOLO[k], SOLO_R[k])
    return "result after an earlier call differs from the solo result, or a global table changed"


# ------------------------------------------------------------------ MODEL-FRAME

def _toy_model():
    X = [["100", "101", "ruleA"], ["100", "ruleB"], ["101", "ruleA", "ruleB"], ["100", "101", "ruleB"]]
    y = [True, False, True, False]
    return NS.train_naive_bayes(X, y)


with NoTracing():
    TOY = _toy_model()
    TOY_SNAP = (tuple(sorted(TOY.transformer.vocabulary.items())), tuple(TOY.estimator.class_prior),
                tuple((k, tuple(v)) for k, v in sorted(TOY.estimator.log_likelihood.items())))
TOKENS = ["100", "101", "ruleA", "ruleB", "unseen"]


def ob_model_frame(n: int, t0: int, t1: int, t2: int, t3: int) -> bool:
    """
    pre: 0 <= n <= 4 and 0 <= t0 < 5 and 0 <= t1 < 5 and 0 <= t2 < 5 and 0 <= t3 < 5
    post: _
    """
    with NoTracing():
        doc = [TOKENS[_pick(t, 5)] for t in (t0, t1, t2, t3)][:_pick(n, 5)]
        d0 = list(doc)
        r1 = TOY.predict_log_proba([doc])
        r2 = TOY.predict_log_proba([doc])
        snap = (tuple(sorted(TOY.transformer.vocabulary.items())), tuple(TOY.estimator.class_prior),
                tuple((k, tuple(v)) for k, v in sorted(TOY.estimator.log_likelihood.items())))
        fin = all(math.isfinite(v) for v in r1[0])
        norm = abs(math.exp(r1[0][0]) + math.exp(r1[0][1]) - 1.0) < 1e-9
        return snap == TOY_SNAP and doc == d0 and r1 == r2 and fin and norm


# ------------------------------------------------------------------ FINITE (C14)

class _LogStub:
    """math as seen by ctparse/nb_scorer.py: log demands a positive finite argument and returns
    an arbitrary finite value (symbolic), so finiteness of the score rests on the argument only"""

    def __init__(self, ret):
        self.ret = ret
        self.bad = False
        self.args = []

    def log(self, x):
        self.args.append(x)
        if not (x > 0):
            self.bad = True
        return self.ret


class _Model:
    def __init__(self, a, b):
        self.a, self.b = a, b

    def predict_log_proba(self, X):
        return [(self.a, self.b)]


FTXT = ["x", "ab", "ab cd", "tomorrow"]


def _frm(id, a, b):
    self = RegexMatch.__new__(RegexMatch)
    Artifact.__init__(self)
    self._attrs = ["mstart", "mend", "id"]
    self.key = "R%d" % id
    self.id = id
    self.match = None
    self.mstart, self.mend, self._text = a, b, ""
    return self


def _conc(x, lo, hi):
    for v in range(lo, hi + 1):
        if x == v:
            return v
    return x


def ob_score_finite(ti: int, a: int, b: int, ma: int, mb: int, lr: int, final: bool) -> bool:
    """
    pre: 0 <= ti < 4 and 0 <= a < b <= 8
    pre: -10 ** 6 <= ma <= 0 and -10 ** 6 <= mb <= 0 and -10 ** 6 <= lr <= 0
    post: _
    """
    txt = FTXT[ti]
    a, b = _conc(a, 0, 8), _conc(b, 0, 8)      # spans: case split (every 0 <= a < b <= len(txt))
    if b > len(txt):
        return True
    m1 = _frm(100, a, b)
    pp = PP.PartialParse((m1,), (100,))
    stub = _LogStub(lr)
    old = NS.math
    NS.math = stub
    try:
        sc = NS.NaiveBayesScorer(_Model(ma, mb))
        if final:
            t = Time(hour=3)
            t.mstart, t.mend = a, b
            v = sc.score_final(txt, datetime(2020, 1, 1), pp, t)
            want = (mb - ma) + 1000 * lr
        else:
            v = sc.score(txt, datetime(2020, 1, 1), pp)
            want = (mb - ma) + lr
    finally:
        NS.math = old
    arg = (b - a) / len(txt)
    return (not stub.bad) and len(stub.args) == 1 and stub.args[0] == arg and 0 < arg <= 1 and v == want


class _OrderModel:
    """model stub whose answer depends on the order of the trace (a memo keyed by the bag of rules is wrong)"""

    def __init__(self, a, b, a2, b2):
        self.v = {True: (a, b), False: (a2, b2)}

    def predict_log_proba(self, X):
        return [self.v[X[0][0] == "100"]]


def ob_score_hist(ma: int, mb: int, ma2: int, mb2: int, lr: int, final1: bool, final2: bool) -> bool:
    """
    pre: -1000 <= ma <= 0 and -1000 <= mb <= 0 and -1000 <= ma2 <= 0 and -1000 <= mb2 <= 0 and -1000 <= lr <= 0
    post: _
    """
    txt = "ab cd"
    m1, m2 = _frm(100, 0, 2), _frm(101, 3, 5)
    pa = PP.PartialParse((m1, m2), (100, 101, "ruleX"))
    pb = PP.PartialParse((m1, m2), (101, 100, "ruleX"))      # same bag of rules, other order
    stub = _LogStub(lr)
    old = NS.math
    NS.math = stub
    try:
        sc = NS.NaiveBayesScorer(_OrderModel(ma, mb, ma2, mb2))
        t = Time(hour=3)
        t.mstart, t.mend = 0, 5
        v1 = sc.score_final(txt, datetime(2020, 1, 1), pa, t) if final1 else sc.score(txt, datetime(2020, 1, 1), pa)
        v2 = sc.score_final(txt, datetime(2020, 1, 1), pb, t) if final2 else sc.score(txt, datetime(2020, 1, 1), pb)
        v3 = sc.score(txt, datetime(2020, 1, 1), pa)
    finally:
        NS.math = old
    return v1 == (mb - ma) + (1000 if final1 else 1) * lr and v2 == (mb2 - ma2) + (1000 if final2 else 1) * lr and v3 == (mb - ma) + lr


LSE_POOL = [-5000.0, -1000.0, -800.0, -745.5, -30.0, -1.0, 0.0]


def ob_lse_range(i: int, j: int) -> bool:
    """
    pre: 0 <= i < 7 and 0 <= j < 7
    post: _
    """
    import ctparse.nb_estimator as NB
    with NoTracing():
        a, b = LSE_POOL[_pick(i, 7)], LSE_POOL[_pick(j, 7)]
        try:
            v = NB._log_sum_exp([a, b])
        except Exception:
            return False
        hi, lo = max(a, b), min(a, b)
        return math.isfinite(v) and abs(v - (hi + math.log1p(math.exp(lo - hi)))) <= 1e-9


# ------------------------------------------------------------------ C14 at API level

STREAM_TEXTS = ["8h", "tomorrow 8pm", "um 20h", "from 5 to 16 aug", "friday morning", "gargelbabel", "8uhr - 13uhr", "9-5"]


def api_stream_check(ti, prior, lat, tsi):
    text, ts = STREAM_TEXTS[ti], TS_POOL[tsi]
    if prior:
        list(C.ctparse_gen(text, ts=ts, timeout=0, latent_time=(prior == 1)))
    st = [c for c in C.ctparse_gen(text, ts=ts, timeout=0, latent_time=lat) if c is not None]
    single = C.ctparse(text, ts=ts, timeout=0, latent_time=lat)
    if single is None:
        return False, "ctparse returned None"
    if not st:
        return (True, "") if single.resolution is None else (False, "empty stream but a resolution")
    if single.resolution is None:
        return False, "stream not empty but empty resolution"
    if not all(isinstance(c.score, float) and math.isfinite(c.score) for c in st):
        return False, "non-finite score"
    best = max(c.score for c in st)
    if single.score != best:
        return False, "ctparse(%r) returned score %r, the best streamed score is %r" % (text, single.score, best)
    if not any(str(c.resolution) == str(single.resolution) and c.production == single.production and c.score == single.score
               and c.subject == single.subject and list(c.labels) == list(single.labels) for c in st):
        return False, "the result of ctparse(%r) is not one of the streamed candidates" % text
    if not lat:
        last = {}
        for c in st:
            k = str(c.resolution)
            if k in last and not (last[k] < c.score):
                return False, "%r streamed again with score %r after %r (latent_time off, earlier call: %s)" % (k, c.score, last[k], prior)
            last[k] = c.score
    return True, ""


def ob_api_stream(ti: int, prior: int, lat: bool, tsi: int) -> bool:
    """
    pre: 0 <= ti < 8 and 0 <= prior <= 2 and 0 <= tsi <= 1
    post: _
    """
    with NoTracing():
        return api_stream_check(_pick(ti, 8), _pick(prior, 3), bool(_pick(lat, 2)), _pick(tsi, 2))[0]


def why_api_stream(ti, prior, lat, tsi):
    return api_stream_check(ti, prior, bool(lat), tsi)[1]
