"""C18 — resolutions compare and hash by value, independent of the character span."""
from typing import Optional

from vq.harness.common import Time, Interval, Duration, DurationUnit, TY
from vq import wfgen as W

PODL = [None, "morning", "night", "last"]
UNITS = W.UNITS

# `hash` as seen by ctparse/types.py: an injective stand-in (the identity on the field tuple):
# equal arguments give equal results and nothing else is assumed
TY.hash = lambda t: ("H", t)


import os
MASK1 = int(os.environ.get("VQ_MASK", "-1"))


def mkT(mask, y, m, d, h, mi, x, pi, a, b):
    t = Time(year=y if mask & 1 else None, month=m if mask & 2 else None, day=d if mask & 4 else None,
             hour=h if mask & 8 else None, minute=mi if mask & 16 else None, DOW=x if mask & 32 else None,
             POD=PODL[pi] if mask & 64 else None)
    t.mstart, t.mend = a, b
    return t


def kT(t):
    return (t.year, t.month, t.day, t.hour, t.minute, t.DOW, t.POD)


def ob_eq_time(k1: int, y1: int, m1: int, d1: int, h1: int, i1: int, x1: int, p1: int, a1: int, b1: int,
               k2: int, y2: int, m2: int, d2: int, h2: int, i2: int, x2: int, p2: int, a2: int, b2: int) -> bool:
    """
    pre: 0 <= k1 < 128 and 0 <= k2 < 128 and 1 <= p1 <= 3 and 1 <= p2 <= 3 and (MASK1 < 0 or k1 == MASK1)
    pre: 0 <= y1 <= 9999 and 0 <= y2 <= 9999 and 1 <= m1 <= 12 and 1 <= m2 <= 12 and 1 <= d1 <= 31 and 1 <= d2 <= 31
    pre: 0 <= h1 <= 23 and 0 <= h2 <= 23 and 0 <= i1 <= 59 and 0 <= i2 <= 59 and 0 <= x1 <= 6 and 0 <= x2 <= 6
    pre: 0 <= a1 <= b1 <= 50 and 0 <= a2 <= b2 <= 50
    post: _
    """
    if MASK1 >= 0:
        k1 = MASK1
    s, t = mkT(k1, y1, m1, d1, h1, i1, x1, p1, a1, b1), mkT(k2, y2, m2, d2, h2, i2, x2, p2, a2, b2)
    same = kT(s) == kT(t)
    if (s == t) != same or (t == s) != same or (s != t) == same:
        return False
    if same and s.__hash__() != t.__hash__():
        return False
    return not (s == Interval(s, None)) and not (s == 5)


def ob_eq_duration(v1: int, u1: int, a1: int, b1: int, v2: int, u2: int, a2: int, b2: int) -> bool:
    """
    pre: 0 <= v1 <= 10000 and 0 <= v2 <= 10000 and 0 <= u1 < 6 and 0 <= u2 < 6
    pre: 0 <= a1 <= b1 <= 50 and 0 <= a2 <= b2 <= 50
    post: _
    """
    s, t = Duration(v1, UNITS[u1]), Duration(v2, UNITS[u2])
    s.mstart, s.mend, t.mstart, t.mend = a1, b1, a2, b2
    same = (v1, u1) == (v2, u2)
    if (s == t) != same:
        return False
    if same and s.__hash__() != t.__hash__():
        return False
    return not (s == Time(hour=v1))


def lift_eq_duration(v1, u1, a1, b1, v2, u2, a2, b2):
    s, t = Duration(v1, UNITS[u1]), Duration(v2, UNITS[u2])
    s.mstart, s.mend, t.mstart, t.mend = a1, b1, a2, b2
    # the property is stated on the public types themselves; witness through the corpus loader too
    from ctparse.corpus import parse_nb_string
    g1, g2 = parse_nb_string(s.nb_str()), parse_nb_string(t.nb_str())
    return {"reproduced": (s == t) != ((v1, u1) == (v2, u2)),
            "witness": {"a": repr(s), "b": repr(t), "a==b": s == t, "gold strings equal": (g1 == g2)}}


def _end(k, h, mi, y):
    # k: 0 None, 1 clock, 2 date, 3 date+clock
    if k == 0:
        return None
    if k == 1:
        return Time(hour=h, minute=mi)
    if k == 2:
        return Time(year=y, month=3, day=7)
    return Time(year=y, month=3, day=7, hour=h, minute=mi)


def ob_eq_interval(ka: int, ha: int, ia: int, ya: int, kb: int, hb: int, ib: int, yb: int,
                   kc: int, hc: int, ic: int, yc: int, kd: int, hd: int, id_: int, yd: int,
                   a1: int, b1: int, a2: int, b2: int) -> bool:
    """
    pre: 0 <= ka <= 3 and 0 <= kb <= 3 and 0 <= kc <= 3 and 0 <= kd <= 3
    pre: 0 <= ha <= 23 and 0 <= hb <= 23 and 0 <= hc <= 23 and 0 <= hd <= 23
    pre: 0 <= ia <= 59 and 0 <= ib <= 59 and 0 <= ic <= 59 and 0 <= id_ <= 59
    pre: 2019 <= ya <= 2021 and 2019 <= yb <= 2021 and 2019 <= yc <= 2021 and 2019 <= yd <= 2021
    pre: 0 <= a1 <= b1 <= 50 and 0 <= a2 <= b2 <= 50
    post: _
    """
    s = Interval(_end(ka, ha, ia, ya), _end(kb, hb, ib, yb))
    t = Interval(_end(kc, hc, ic, yc), _end(kd, hd, id_, yd))
    s.mstart, s.mend, t.mstart, t.mend = a1, b1, a2, b2
    if s.t_from is not None:
        s.t_from.mstart = a2
    def kv(e):
        return None if e is None else kT(e)
    same = (kv(s.t_from), kv(s.t_to)) == (kv(t.t_from), kv(t.t_to))
    if (s == t) != same:
        return False
    if same and s.__hash__() != t.__hash__():
        return False
    return True


# ------------------------------------------------------------------ printed form round trip (C18)
from crosshair.tracers import NoTracing, ResumedTracing
from ctparse.corpus import parse_nb_string

LOW = dict(year=1, month=1, day=1, hour=0, minute=0, DOW=0, POD="morning")
HIGH = dict(year=9999, month=12, day=31, hour=23, minute=59, DOW=6, POD="verylatelatenight")
MID = dict(year=2020, month=2, day=29, hour=12, minute=30, DOW=3, POD="last")
VARS = [LOW, HIGH, MID]
FIELDS = ["year", "month", "day", "hour", "minute", "DOW", "POD"]


def _pick(x, n):
    with ResumedTracing():
        for v in range(n):
            if x == v:
                return v
    return 0


def _mk(mask, var):
    return Time(**{f: VARS[var][f] for i, f in enumerate(FIELDS) if mask & (1 << i)})


def roundtrip_check(mask, var, mask2, var2, kind, amount, unit):
    a, b = _mk(mask, var), _mk(mask2, var2)
    if kind == 0:
        objs = [a]
    elif kind == 1:
        objs = [Interval(a, b), Interval(a, None), Interval(None, b)]
    else:
        objs = [Duration(amount, UNITS[unit])]
    for o in objs:
        back = type(o).from_str(str(o))
        if not (back == o) or str(back) != str(o):
            return False, "from_str(str(x)) != x for %r: got %r" % (o, back)
        nb = parse_nb_string(o.nb_str())
        if not (nb == o):
            return False, "parse_nb_string(nb_str(x)) != x for %r: got %r" % (o, nb)
    if kind == 0 and (mask, var) != (mask2, var2) and str(a) == str(b) and not (a == b):
        return False, "two different values print alike: %r / %r" % (a, b)
    return True, ""


def ob_roundtrip(mask: int, var: int, mask2: int, var2: int, kind: int, amount: int, unit: int) -> bool:
    """
    pre: 0 <= mask < 128 and 0 <= var < 3 and 0 <= mask2 < 128 and 0 <= var2 < 3 and 0 <= kind <= 2 and 0 <= amount <= 2 and 0 <= unit < 6
    pre: (kind == 1 or (mask2 == 127 and var2 == 2)) and (kind == 2 or (amount == 0 and unit == 0)) and (kind != 1 or (mask2 in (7, 24, 31, 127) and mask in (7, 24, 31, 127)))
    pre: kind != 2 or (mask == 0 and var == 0)
    post: _
    """
    with NoTracing():
        k = _pick(kind, 3)
        return roundtrip_check(_pick(mask, 128), _pick(var, 3), _pick(mask2, 128), _pick(var2, 3), k, [0, 7, 10000][_pick(amount, 3)], _pick(unit, 6))[0]


def why_roundtrip(mask, var, mask2, var2, kind, amount, unit):
    return roundtrip_check(mask, var, mask2, var2, kind, [0, 7, 10000][amount], unit)[1]
