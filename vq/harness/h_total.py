"""C01 — totality pieces that are not rule applications:
result construction/rendering on a stubbed candidate stream, the documented fallback of the
default scorer, duration arithmetic far outside the calendar."""
import sys
from datetime import datetime
from typing import Optional

from vq.harness.common import CT, REG, Time, Interval, Duration, DurationUnit, body
from vq import wfgen as W

LD = sys.modules["ctparse.loader"]
UNITS = W.UNITS
_timedur = REG["ruleTimeDuration"][0]
_durint = REG["ruleDurationInterval"][0]

TEXTS = ["", "#a", "# ", "meet #a bob", "a-b #x-y", "x,(y)"]
NTX = len(TEXTS)

RES = [None,
       Time(year=2020, month=2, day=29), Time(hour=8, minute=30), Time(POD="morning"),
       Interval(Time(hour=8), None),
       Interval(Time(year=2020, month=1, day=1, hour=9), Time(year=2020, month=1, day=1, hour=17, minute=5)),
       Duration(3, DurationUnit.DAYS)]
NRES = len(RES)


SCORES = [-1e6, 3.25]      # rendering a symbolic float realises it; ordering is C14.SELECT's subject
from crosshair.tracers import NoTracing, ResumedTracing


def _pick(x, n):
    with ResumedTracing():
        for v in range(n):
            if x == v:
                return v
    return 0


def result_check(txt, n, r0, r1, s0, s1, none_only, latent):
    import copy
    cands = [CT.CTParse(copy.deepcopy(RES[r0]), (100, "ruleX"), s0, "subj", ["a"]),
             CT.CTParse(copy.deepcopy(RES[r1]), (101,), s1, "", [])][:n]
    stream = [None] if (none_only and n == 0) else cands
    old = CT.ctparse_gen
    CT.ctparse_gen = lambda *a, **k: iter(stream)
    try:
        p = CT.ctparse(txt, ts=datetime(2020, 1, 1), latent_time=latent)
    finally:
        CT.ctparse_gen = old
    if p is None:
        return False
    if not isinstance(p.subject, str) or not isinstance(p.labels, list):
        return False
    if not all(isinstance(x, str) for x in p.labels):
        return False
    if n == 0 and p.resolution is not None:
        return False
    if n > 0 and p.resolution is None:
        return False
    return isinstance(str(p), str) and isinstance(repr(p), str)


def ob_result(ti: int, n: int, r0: int, r1: int, i0: int, i1: int, none_only: bool, latent: bool) -> bool:
    """
    pre: 0 <= ti < NTX and 0 <= n <= 2 and 1 <= r0 < NRES and 1 <= r1 < NRES and 0 <= i0 < 2 and 0 <= i1 < 2
    pre: (n == 0 or ti == 0) and (n == 0 or not none_only) and (n == 2 or (r1 == 1 and i1 == 0)) and (n >= 1 or (r0 == 1 and i0 == 0))
    post: _
    """
    with NoTracing():
        try:
            return result_check(TEXTS[_pick(ti, NTX)], _pick(n, 3), _pick(r0, NRES), _pick(r1, NRES), SCORES[_pick(i0, 2)], SCORES[_pick(i1, 2)],
                                bool(_pick(none_only, 2)), bool(_pick(latent, 2)))
        except Exception:
            return False


def lift_result(ti, n, r0, r1, i0, i1, none_only, latent):
    # the obligation is stated on ctparse() itself; the no-match path is reachable by any text
    # without a time expression
    out = []
    for txt in TEXTS + ["gargelbabel", "#tag only", ""]:
        try:
            p = CT.ctparse(txt, ts=datetime(2020, 1, 1), timeout=0, latent_time=latent)
            str(p), repr(p)
            ok = isinstance(p.subject, str) and isinstance(p.labels, list)
        except Exception as e:
            return {"reproduced": True, "witness": {"text": txt, "exception": "%s: %s" % (type(e).__name__, e)}}
        if not ok:
            return {"reproduced": True, "witness": {"text": txt, "subject": repr(p.subject), "labels": repr(p.labels)}}
    return {"reproduced": False}


class _FakeFile:
    def __enter__(self):
        return self

    def __exit__(self, *a):
        return False


def ob_default_scorer(present: bool) -> bool:
    """
    post: _
    """
    from ctparse.scorer import Scorer, DummyScorer
    with NoTracing():
        if _pick(present, 2):
            return isinstance(CT._DEFAULT_SCORER, Scorer)
        # configuration fault "shipped model file absent": the real loader runs against a path that does not exist
        old = LD.DEFAULT_MODEL_FILE
        LD.DEFAULT_MODEL_FILE = "/nonexistent-dir/model.pbz"
        try:
            sc = LD.load_default_scorer()
        except Exception:
            return False
        finally:
            LD.DEFAULT_MODEL_FILE = old
        return isinstance(sc, DummyScorer)


import os
U_LO = int(os.environ.get("VQ_ULO", "0"))
U_HI = int(os.environ.get("VQ_UHI", "6"))
N_LO = int(os.environ.get("VQ_NLO", "10000"))
N_HI = int(os.environ.get("VQ_NHI", str(10 ** 13)))


def ob_overflow(n: int, ui: int, d: int, h: Optional[int]) -> bool:
    """
    pre: N_LO <= n <= N_HI and U_LO <= ui < U_HI and 1 <= d <= 28 and (h is None or 0 <= h <= 23)
    post: _
    """
    t = Time(year=2018, month=3, day=d, hour=h)
    t.mstart, t.mend = 0, 5
    dur = Duration(n, UNITS[ui])
    dur.mstart, dur.mend = 10, 15
    m = W.StubMatch({}, 6, 9)
    try:
        r = _timedur(datetime(2018, 3, 7, 12, 43), t, m, dur)
    except Exception:
        return False
    return r is None or isinstance(r, Interval)


def lift_overflow(n, ui, d, h):
    unit = UNITS[ui].value
    text = "%d.3.2018%s for %d %s" % (d, "" if h is None else " %d:00" % h, n, unit)
    try:
        p = CT.ctparse(text, ts=datetime(2018, 3, 7, 12, 43), timeout=0)
        str(p)
        return {"reproduced": False, "text": text, "observed": str(p.resolution)}
    except Exception as e:
        return {"reproduced": True, "witness": {"text": text, "exception": "%s: %s" % (type(e).__name__, e)}}


def ob_durint_big(n: int, ui: int, d1: int, d2: int) -> bool:
    """
    pre: 0 <= n <= 10 ** 13 and 0 <= ui < 6 and 1 <= d1 < d2 <= 28
    post: _
    """
    iv = Interval(Time(year=2018, month=3, day=d1), Time(year=2018, month=3, day=d2))
    iv.mstart, iv.mend = 10, 20
    dur = Duration(n, UNITS[ui])
    dur.mstart, dur.mend = 0, 5
    try:
        r = _durint(datetime(2018, 3, 7, 12, 43), dur, iv)
    except Exception:
        return False
    return r is None or isinstance(r, Interval)
