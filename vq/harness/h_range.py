"""C07 — ranges are built from their two ends, ordered, and wrap sensibly.
Exact contracts of the range rules, arguments symbolic inside WF; dated arguments live in the
year-month cell VQ_Y / VQ_M (day symbolic) where datetime arithmetic is involved."""
from datetime import datetime
from typing import Optional

from vq.harness.common import body, REG, Time, Interval, CELL_Y, CELL_M, PODS, PL, conc
from vq.spec.cal import mdays, add_days_small, valid_date
from vq.spec.wf import key_time
from vq import wfgen as W
from vq.harness import lift as L

TS = datetime(2020, 1, 1)
MDC = mdays(CELL_Y, CELL_M)
J = W.StubMatch({}, 4, 7)          # the joiner match (pattern has no named groups)
QP = [PODS.index(x) for x in ("morning", "afternoon", "night", "last", "noon") if x in PODS]


def w(name):
    return REG[name][0]


def _iv(r):
    return None if r is None else (None if r.t_from is None else key_time(r.t_from), None if r.t_to is None else key_time(r.t_to))


def D(y, m, d):
    return Time(year=y, month=m, day=d)


def ob_datedate(y1: int, m1: int, d1: int, y2: int, m2: int, d2: int) -> bool:
    """
    pre: 1990 <= y1 <= 2029 and 1990 <= y2 <= 2029 and 1 <= m1 <= 12 and 1 <= m2 <= 12
    pre: 1 <= d1 <= mdays(y1, m1) and 1 <= d2 <= mdays(y2, m2)
    post: _
    """
    a, b = D(y1, m1, d1), D(y2, m2, d2)
    r = w("ruleDateDate")(TS, a, J, b)
    if (y1, m1, d1) < (y2, m2, d2):
        return _iv(r) == (key_time(a), key_time(b))
    return r is None


def lift_datedate(y1, m1, d1, y2, m2, d2):
    a, b = D(y1, m1, d1), D(y2, m2, d2)
    exp = ("I", L.val(a), L.val(b)) if (y1, m1, d1) < (y2, m2, d2) else None
    return L.contract("ruleDateDate", [("art", None), ("rm", 136), ("art", None)], [a, J, b], TS, exp)


def ob_domdate(dom: int, y2: int, m2: int, d2: int) -> bool:
    """
    pre: 1 <= dom <= 31 and 1990 <= y2 <= 2029 and 1 <= m2 <= 12 and 1 <= d2 <= mdays(y2, m2)
    post: _
    """
    a, b = Time(day=dom), D(y2, m2, d2)
    r = w("ruleDOMDate")(TS, a, J, b)
    if dom < d2:
        return _iv(r) == (key_time(D(y2, m2, dom)), key_time(b))
    return r is None


def lift_domdate(dom, y2, m2, d2):
    a, b = Time(day=dom), D(y2, m2, d2)
    exp = ("I", L.val(D(y2, m2, dom)), L.val(b)) if dom < d2 else None
    return L.contract("ruleDOMDate", [("art", None), ("rm", 136), ("art", None)], [a, J, b], TS, exp)


def ob_datedom(y1: int, m1: int, d1: int, dom: int) -> bool:
    """
    pre: 1 <= dom <= 31 and 1990 <= y1 <= 2029 and 1 <= m1 <= 12 and 1 <= d1 <= mdays(y1, m1)
    post: _
    """
    a, b = D(y1, m1, d1), Time(day=dom)
    r = w("ruleDateDOM")(TS, a, J, b)
    if d1 < dom and dom <= mdays(y1, m1):
        return _iv(r) == (key_time(a), key_time(D(y1, m1, dom)))
    return r is None


def lift_datedom(y1, m1, d1, dom):
    a, b = D(y1, m1, d1), Time(day=dom)
    exp = ("I", L.val(a), L.val(D(y1, m1, dom))) if (d1 < dom and dom <= mdays(y1, m1)) else None
    return L.contract("ruleDateDOM", [("art", None), ("rm", 136), ("art", None)], [a, J, b], TS, exp)


def ob_doydate(mm: int, dd: int, y2: int, m2: int, d2: int) -> bool:
    """
    pre: 1 <= mm <= 12 and 1 <= dd <= mdays(None, mm)
    pre: 1990 <= y2 <= 2029 and 1 <= m2 <= 12 and 1 <= d2 <= mdays(y2, m2)
    post: _
    """
    a, b = Time(month=mm, day=dd), D(y2, m2, d2)
    r = w("ruleDOYDate")(TS, a, J, b)
    if (mm, dd) < (m2, d2) and dd <= mdays(y2, mm):
        return _iv(r) == (key_time(D(y2, mm, dd)), key_time(b))
    return r is None


def lift_doydate(mm, dd, y2, m2, d2):
    a, b = Time(month=mm, day=dd), D(y2, m2, d2)
    exp = ("I", L.val(D(y2, mm, dd)), L.val(b)) if ((mm, dd) < (m2, d2) and dd <= mdays(y2, mm)) else None
    return L.contract("ruleDOYDate", [("art", None), ("rm", 136), ("art", None)], [a, J, b], TS, exp)


def ob_dtdt(m1: int, d1: int, h1: int, mi1: Optional[int], m2: int, d2: int, h2: int, mi2: Optional[int], dy: int) -> bool:
    """
    pre: 1 <= m1 <= 12 and 1 <= m2 <= 12 and 1 <= d1 <= mdays(CELL_Y, m1) and 0 <= dy <= 1 and 1 <= d2 <= mdays(CELL_Y + dy, m2)
    pre: 0 <= h1 <= 23 and 0 <= h2 <= 23 and (mi1 is None or 0 <= mi1 <= 59) and (mi2 is None or 0 <= mi2 <= 59)
    post: _
    """
    a = Time(year=CELL_Y, month=m1, day=d1, hour=h1, minute=mi1)
    b = Time(year=CELL_Y + dy, month=m2, day=d2, hour=h2, minute=mi2)
    r = w("ruleDateTimeDateTime")(TS, a, J, b)
    if (CELL_Y, m1, d1, h1, mi1 or 0) < (CELL_Y + dy, m2, d2, h2, mi2 or 0):
        return _iv(r) == (key_time(a), key_time(b))
    return r is None


def lift_dtdt(m1, d1, h1, mi1, m2, d2, h2, mi2, dy):
    a = Time(year=CELL_Y, month=m1, day=d1, hour=h1, minute=mi1)
    b = Time(year=CELL_Y + dy, month=m2, day=d2, hour=h2, minute=mi2)
    ok = (CELL_Y, m1, d1, h1, mi1 or 0) < (CELL_Y + dy, m2, d2, h2, mi2 or 0)
    exp = ("I", L.val(a), L.val(b)) if ok else None
    return L.contract("ruleDateTimeDateTime", [("art", None), ("rm", 136), ("art", None)], [a, J, b], TS, exp)


def spec_todtod_end(h1, h2):
    """'9-5 means 09:00-17:00': an end hour before the start hour, both on the 12-hour dial,
    is an afternoon hour"""
    return h2 + 12 if (h1 > h2 and h1 <= 12 and h2 <= 12) else h2


def ob_todtod(h1: int, mi1: Optional[int], h2: int, mi2: Optional[int]) -> bool:
    """
    pre: 0 <= h1 <= 23 and 0 <= h2 <= 23 and (mi1 is None or 0 <= mi1 <= 59) and (mi2 is None or 0 <= mi2 <= 59)
    post: _
    """
    a, b = Time(hour=h1, minute=mi1), Time(hour=h2, minute=mi2)
    r = w("ruleTODTOD")(TS, a, J, b)
    return _iv(r) == (key_time(a), (None, None, None, spec_todtod_end(h1, h2), mi2, None, None)) \
        and key_time(b) == (None, None, None, h2, mi2, None, None)


def lift_todtod(h1, mi1, h2, mi2):
    a, b = Time(hour=h1, minute=mi1), Time(hour=h2, minute=mi2)
    exp = ("I", L.val(a), L.val(Time(hour=spec_todtod_end(h1, h2), minute=mi2)))
    return L.contract("ruleTODTOD", [("art", None), ("rm", 136), ("art", None)], [a, J, b], TS, exp)


def ob_podpod(p1: int, p2: int) -> bool:
    """
    pre: p1 in QP and p2 in QP
    post: _
    """
    a, b = Time(POD=PODS[p1]), Time(POD=PODS[p2])
    r = w("rulePODPOD")(TS, a, J, b)
    return _iv(r) == (key_time(a), key_time(b))


def ob_before(neg: bool, h: int) -> bool:
    """
    pre: 0 <= h <= 23
    post: _
    """
    t = Time(hour=h)
    m = W.StubMatch({"not": "not "} if neg else {}, 0, 3)
    r = w("ruleBeforeTime")(TS, m, t)
    return _iv(r) == ((key_time(t), None) if neg else (None, key_time(t)))


def ob_after(neg: bool, h: int) -> bool:
    """
    pre: 0 <= h <= 23
    post: _
    """
    t = Time(hour=h)
    m = W.StubMatch({"not": "not "} if neg else {}, 0, 3)
    r = w("ruleAfterTime")(TS, m, t)
    return _iv(r) == ((None, key_time(t)) if neg else (key_time(t), None))


def lift_before(neg, h):
    t = Time(hour=h)
    m = W.StubMatch({"not": "not "} if neg else {}, 0, 3)
    exp = ("I", L.val(t), None) if neg else ("I", None, L.val(t))
    return L.contract("ruleBeforeTime", [("rm", 134), ("art", None)], [m, t], TS, exp)


def lift_after(neg, h):
    t = Time(hour=h)
    m = W.StubMatch({"not": "not "} if neg else {}, 0, 3)
    exp = ("I", None, L.val(t)) if neg else ("I", L.val(t), None)
    return L.contract("ruleAfterTime", [("rm", 135), ("art", None)], [m, t], TS, exp)


# ---- date + clock range -------------------------------------------------------------

def _mins(t):
    return t.hour * 60 + (t.minute or 0)


def ob_dateinterval(d: int, h1: int, mi1: Optional[int], h2: int, mi2: Optional[int]) -> bool:
    """
    pre: 1 <= d <= MDC and 0 <= h1 <= 23 and 0 <= h2 <= 23
    pre: (mi1 is None or 0 <= mi1 <= 59) and (mi2 is None or 0 <= mi2 <= 59)
    pre: not (h1 > h2 and h1 <= 12 and h2 <= 12)
    post: _
    """
    date = D(CELL_Y, CELL_M, d)
    iv = Interval(Time(hour=h1, minute=mi1), Time(hour=h2, minute=mi2))
    r = w("ruleDateInterval")(TS, date, iv)
    if r is None or r.t_from is None or r.t_to is None:
        return False
    f, t = r.t_from, r.t_to
    # the start is the date at the written start time
    if key_time(f) != (CELL_Y, CELL_M, d, h1, mi1, None, None):
        return False
    a, b = h1 * 60 + (mi1 or 0), h2 * 60 + (mi2 or 0)
    nd = add_days_small(CELL_Y, CELL_M, d, 1)
    same = (CELL_Y, CELL_M, d)
    if b > a:
        # already ordered: the end is the same date at the written end time
        return key_time(t) == (CELL_Y, CELL_M, d, h2, mi2, None, None)
    # otherwise the end moves 12 hours or one day later; never before/at the start, never > 24 h
    tday = (t.year, t.month, t.day)
    tm = t.hour * 60 + (t.minute or 0)
    if tday == same:
        return tm > a and tm == b + 12 * 60
    if tday == nd:
        return tm <= a and (tm == b or tm == b + 12 * 60 - 24 * 60)
    return False


def lift_dateinterval(d, h1, mi1, h2, mi2):
    date = D(CELL_Y, CELL_M, d)
    iv = Interval(Time(hour=h1, minute=mi1), Time(hour=h2, minute=mi2))
    a, b = h1 * 60 + (mi1 or 0), h2 * 60 + (mi2 or 0)

    def post(expected, streamed):
        # effect: some streamed dated interval with this start is inverted, equal-ended or > 24 h
        for s in streamed:
            if s and s[0] == "I" and s[1] and s[2] and s[1][1:4] == (CELL_Y, CELL_M, d) and s[1][4] == h1 and s[2][1] is not None and s[2][4] is not None:
                from vq.spec.cal import days_from_civil
                ta = days_from_civil(*s[1][1:4]) * 1440 + s[1][4] * 60 + (s[1][5] or 0)
                tb = days_from_civil(*s[2][1:4]) * 1440 + s[2][4] * 60 + (s[2][5] or 0)
                if not (ta < tb <= ta + 1440):
                    return True
        return False
    return L.contract("ruleDateInterval", [("art", None), ("art", None)], [date, iv], TS, ("unspecified",), post=post)


# ---- latent anchoring of a clock range ------------------------------------------------

import os
MINSHAPE = os.environ.get("VQ_MINSHAPE", "11")    # which of the two minutes are written
DAY = int(os.environ.get("VQ_D", "0"))            # concrete day of the cell month (0: symbolic)
if DAY < 0:
    DAY = MDC + 1 + DAY                           # -1: last day, -2: the day before


def ob_latent_interval(d: int, h: int, mi: int, s: int, h1: int, m1: int, h2: int, m2: int) -> bool:
    """
    pre: 1 <= d <= MDC and 0 <= h <= 23 and 0 <= mi <= 59 and 0 <= s <= 59
    pre: 0 <= h1 <= 23 and 0 <= h2 <= 23 and 0 <= m1 <= 59 and 0 <= m2 <= 59
    pre: (MINSHAPE[0] == "1" or m1 == 0) and (MINSHAPE[1] == "1" or m2 == 0)
    pre: DAY == 0 or d == DAY
    post: _
    """
    if DAY:
        d = DAY
    mi1 = m1 if MINSHAPE[0] == "1" else None
    mi2 = m2 if MINSHAPE[1] == "1" else None
    iv = Interval(Time(hour=h1, minute=mi1), Time(hour=h2, minute=mi2))
    r = PL._latent_time_interval(datetime(CELL_Y, CELL_M, d, h, mi, s), iv)
    a, b, now = h1 * 60 + (mi1 or 0), h2 * 60 + (mi2 or 0), h * 60 + mi
    d_from = (CELL_Y, CELL_M, d) if a > now else add_days_small(CELL_Y, CELL_M, d, 1)
    d_to = d_from if b > a else add_days_small(d_from[0], d_from[1], d_from[2], 1)
    return r is not None and key_time(r.t_from) == (d_from[0], d_from[1], d_from[2], h1, mi1 or 0, None, None) \
        and key_time(r.t_to) == (d_to[0], d_to[1], d_to[2], h2, mi2 or 0, None, None)


def lift_latent_interval(d, h, mi, s, h1, mi1, h2, mi2):
    # (a missing minute and minute 0 have the same notation here)
    from vq.harness.common import parse_all
    ts = datetime(CELL_Y, CELL_M, d, h, mi, s)
    text = "%d:%02d - %d:%02d" % (h1, mi1 or 0, h2, mi2 or 0)
    bad = []
    for c in parse_all(text, ts, max_stack_depth=0):
        r = c.resolution
        if isinstance(r, Interval) and r.t_from is not None and r.t_to is not None and r.t_from.hasDate and r.t_to.hasDate:
            if r.t_from.hour == h1 and not (r.t_from.dt < r.t_to.dt):
                bad.append(str(r))
    return {"reproduced": bool(bad), "witness": {"text": text, "ts": ts.isoformat(), "inverted": bad[:3]}}
