"""C16 / C17 — vectoriser plumbing and dataset builders (CrossHair on the real functions)."""
import sys
from datetime import datetime
from typing import Optional

from ctparse.count_vectorizer import CountVectorizer
import ctparse.ctparse  # noqa
from ctparse.types import Time, Interval, Duration, DurationUnit
import ctparse.corpus as CO

from crosshair.tracers import NoTracing, ResumedTracing

SYM = ["a", "b", "c"]
import os
NTRAIN = int(os.environ.get("VQ_NTRAIN", "4"))
NQUERY = int(os.environ.get("VQ_NQUERY", "2"))


def _pick(x, n):
    """realise a symbolic index under tracing (the solver covers every value); the code under
    test then runs untraced on concrete tokens"""
    with ResumedTracing():
        for v in range(n):
            if x == v:
                return v
    return 0


def _doc(n, t0, t1, t2, t3, t4):
    return [SYM[t] for t in (t0, t1, t2, t3, t4)][:n]


def _spec_ngrams(toks, lo=1, hi=3):
    exp = []
    for n in range(lo, hi + 1):
        for i in range(len(toks) - n + 1):
            exp.append(" ".join(toks[i:i + n]))
    return exp


def ob_ngram(n: int, t0: int, t1: int, t2: int, t3: int, t4: int) -> bool:
    """
    pre: 0 <= n <= 5 and 0 <= t0 <= 2 and 0 <= t1 <= 2 and 0 <= t2 <= 2 and 0 <= t3 <= 2 and 0 <= t4 <= 2
    post: _
    """
    with NoTracing():
        toks = _doc(_pick(n, 6), _pick(t0, 3), _pick(t1, 3), _pick(t2, 3), _pick(t3, 3), _pick(t4, 3))
        got = CountVectorizer._create_ngrams((1, 3), [toks, ["a"]])
        return sorted(got[0]) == sorted(_spec_ngrams(toks)) and got[1] == ["a"]


def ob_counts(n: int, t0: int, t1: int, t2: int, t3: int, t4: int, m: int, u0: int, u1: int, u2: int) -> bool:
    """
    pre: 1 <= n <= NTRAIN and 0 <= t0 <= 1 and 0 <= t1 <= 1 and 0 <= t2 <= 1 and 0 <= t3 <= 1 and 0 <= t4 <= 1
    pre: 0 <= m <= NQUERY and 0 <= u0 <= 2 and 0 <= u1 <= 2 and 0 <= u2 <= 2
    pre: (n > 4 or t4 == 0) and (n > 3 or t3 == 0) and (m > 2 or u2 == 0) and (m > 1 or u1 == 0) and (m > 0 or u0 == 0)
    post: _
    """
    with NoTracing():
        train = _doc(_pick(n, 6), _pick(t0, 2), _pick(t1, 2), _pick(t2, 2), _pick(t3, 2), _pick(t4, 2))
        query = [["a", "b", "zz"][_pick(u, 3)] for u in (u0, u1, u2)][:_pick(m, 4)]
        return _counts_ok(train, query)


def _counts_ok(train, query):
    cv = CountVectorizer((1, 3))
    fm = cv.fit_transform([train, ["a"]])
    voc = cv.vocabulary
    grams = set(_spec_ngrams(train)) | {"a"}
    # VOCAB: sorted bijection onto 0..len-1
    if sorted(voc) != sorted(grams) or [voc[k] for k in sorted(voc)] != list(range(len(grams))):
        return False
    # COUNT on the training documents
    for g in grams:
        if fm[0].get(voc[g], 0) != _spec_ngrams(train).count(g):
            return False
    if sum(fm[0].values()) != len(_spec_ngrams(train)):
        return False
    # FEAT: unknown n-grams ignored, nothing else counted, vocabulary not changed by transform
    q = cv.transform([query])[0]
    for g in grams:
        if q.get(voc[g], 0) != _spec_ngrams(query).count(g):
            return False
    known = [g for g in _spec_ngrams(query) if g in grams]
    return sum(q.values()) == len(known) and cv.vocabulary == voc and max(list(q.keys()) + [len(voc) - 1]) == len(voc) - 1


# ------------------------------------------------------------------ C17 DATASET

RESOLUTIONS = [Time(year=2020, month=2, day=29), Time(hour=8, minute=30), Duration(3, DurationUnit.DAYS),
               Duration(3, DurationUnit.NIGHTS), Interval(Time(hour=8), Time(hour=9)), Interval(None, Time(hour=9)),
               Time(year=2020, month=2, day=28)]
NR = len(RESOLUTIONS)


def _clone(i, a, b):
    import copy
    r = copy.deepcopy(RESOLUTIONS[i])
    r.mstart, r.mend = a, b
    return r


def ob_dataset(n: int, r0: int, r1: int, l0: int, l1: int, g: int, a0: int, b0: int, a1: int, b1: int, none_first: bool) -> bool:
    """
    pre: 0 <= n <= 2 and 0 <= r0 < NR and 0 <= r1 < NR and 1 <= l0 <= 3 and 1 <= l1 <= 3 and 0 <= g < NR
    pre: 0 <= a0 < b0 <= 9 and 0 <= a1 < b1 <= 9
    post: _
    """
    prods = [(100, 101, "ruleA")[:l0], (102, "ruleB", "ruleC")[:l1]]
    cands = [CO.ctparse_gen.__globals__["CTParse"](_clone(r0, a0, b0), prods[0], 0.5, "", []),
             CO.ctparse_gen.__globals__["CTParse"](_clone(r1, a1, b1), prods[1], 0.25, "", [])][:n]
    stream = ([None] if none_first else []) + cands
    entry = CO.TimeParseEntry("txt", datetime(2020, 1, 1), _clone(g, 0, 0))
    old = CO.ctparse_gen
    CO.ctparse_gen = lambda *a, **k: iter(stream)
    try:
        got = list(CO.make_partial_rule_dataset([entry], scorer=None, timeout=0, max_stack_depth=0))
    finally:
        CO.ctparse_gen = old
    exp = []
    for c, ri in zip(cands, (r0, r1)):
        label = (ri == g)                  # RESOLUTIONS are pairwise different values
        for i in range(1, len(c.production) + 1):
            exp.append(([str(p) for p in c.production[:i]], label))
    return got == exp


def lift_dataset(n, r0, r1, l0, l1, g, a0, b0, a1, b1, none_first):
    # the builders are public API; the witness is the kernel call itself, shown with the values
    return {"reproduced": True, "witness": {"candidate": repr(_clone(r0, a0, b0)), "gold": repr(_clone(g, 0, 0)),
                                            "equal": _clone(r0, a0, b0) == _clone(g, 0, 0)}}
