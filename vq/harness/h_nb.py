"""C16 / C17 — vectoriser plumbing and dataset builders (CrossHair on the real functions)."""
import os
import sys
from datetime import datetime
from typing import Optional

from ctparse.count_vectorizer import CountVectorizer
import ctparse.ctparse  # noqa
from ctparse.types import Time, Interval, Duration, DurationUnit
import ctparse.corpus as CO

from crosshair.tracers import NoTracing, ResumedTracing

SYM = ["a", "b", "c"]
import os
NTRAIN = int(os.environ.get("VQ_NTRAIN", "4"))
NQUERY = int(os.environ.get("VQ_NQUERY", "2"))


def _pick(x, n):
    """realise a symbolic index under tracing (the solver covers every value); the code under
    test then runs untraced on concrete tokens"""
    with ResumedTracing():
        for v in range(n):
            if x == v:
                return v
    return 0


def _doc(n, t0, t1, t2, t3, t4):
    return [SYM[t] for t in (t0, t1, t2, t3, t4)][:n]


def _spec_ngrams(toks, lo=1, hi=3):
    exp = []
    for n in range(lo, hi + 1):
        for i in range(len(toks) - n + 1):
            exp.append(" ".join(toks[i:i + n]))
    return exp


def ob_ngram(n: int, t0: int, t1: int, t2: int, t3: int, t4: int) -> bool:
    """
    pre: 0 <= n <= 5 and 0 <= t0 <= 2 and 0 <= t1 <= 2 and 0 <= t2 <= 2 and 0 <= t3 <= 2 and 0 <= t4 <= 2
    post: _
    """
    with NoTracing():
        toks = _doc(_pick(n, 6), _pick(t0, 3), _pick(t1, 3), _pick(t2, 3), _pick(t3, 3), _pick(t4, 3))
        got = CountVectorizer._create_ngrams((1, 3), [toks, ["a"]])
        return sorted(got[0]) == sorted(_spec_ngrams(toks)) and got[1] == ["a"]


def ob_counts(n: int, t0: int, t1: int, t2: int, t3: int, t4: int, m: int, u0: int, u1: int, u2: int) -> bool:
    """
    pre: 1 <= n <= NTRAIN and 0 <= t0 <= 1 and 0 <= t1 <= 1 and 0 <= t2 <= 1 and 0 <= t3 <= 1 and 0 <= t4 <= 1
    pre: 0 <= m <= NQUERY and 0 <= u0 <= 2 and 0 <= u1 <= 2 and 0 <= u2 <= 2
    pre: (n > 4 or t4 == 0) and (n > 3 or t3 == 0) and (m > 2 or u2 == 0) and (m > 1 or u1 == 0) and (m > 0 or u0 == 0)
    post: _
    """
    with NoTracing():
        train = _doc(_pick(n, 6), _pick(t0, 2), _pick(t1, 2), _pick(t2, 2), _pick(t3, 2), _pick(t4, 2))
        query = [["a", "b", "zz"][_pick(u, 3)] for u in (u0, u1, u2)][:_pick(m, 4)]
        return _counts_ok(train, query)


def _counts_ok(train, query):
    cv = CountVectorizer((1, 3))
    fm = cv.fit_transform([train, ["a"]])
    voc = cv.vocabulary
    grams = set(_spec_ngrams(train)) | {"a"}
    # VOCAB: sorted bijection onto 0..len-1
    if sorted(voc) != sorted(grams) or [voc[k] for k in sorted(voc)] != list(range(len(grams))):
        return False
    # COUNT on the training documents
    for g in grams:
        if fm[0].get(voc[g], 0) != _spec_ngrams(train).count(g):
            return False
    if sum(fm[0].values()) != len(_spec_ngrams(train)):
        return False
    # FEAT: unknown n-grams ignored, nothing else counted, vocabulary not changed by transform
    q = cv.transform([query])[0]
    for g in grams:
        if q.get(voc[g], 0) != _spec_ngrams(query).count(g):
            return False
    known = [g for g in _spec_ngrams(query) if g in grams]
    return sum(q.values()) == len(known) and cv.vocabulary == voc and max(list(q.keys()) + [len(voc) - 1]) == len(voc) - 1


# ------------------------------------------------------------------ C17 DATASET

RESOLUTIONS = [Time(year=2020, month=2, day=29), Time(hour=8, minute=30), Duration(3, DurationUnit.DAYS),
               Duration(3, DurationUnit.NIGHTS), Interval(Time(hour=8), Time(hour=9)), Interval(None, Time(hour=9)),
               Time(year=2020, month=2, day=28), Time(year=2020, month=2, day=29, hour=8, minute=30)]
NR = len(RESOLUTIONS)


def _clone(i, a, b):
    import copy
    r = copy.deepcopy(RESOLUTIONS[i])
    r.mstart, r.mend = a, b
    return r


RES4 = [0, 2, 3, 4]        # indices into RESOLUTIONS: a date, 3 days, 3 nights, a clock interval
RES4P = [1, 7, 4, 5]       # pairs in which one value is the other with fields left out: 8:30 / 2020-02-29 8:30, 8-9 / open-9 (either can be candidate or gold)


def dataset_check(n, r0, r1, l0, g, g2, none_first, two):
    CT = CO.ctparse_gen.__globals__["CTParse"]
    prods = [(100, 101, "ruleA")[:l0], (102, "ruleB")]
    ts1, ts2 = datetime(2020, 1, 1), datetime(2021, 6, 1)

    def stream_for(ts):
        # the scripted parser depends on the reference time: the second entry (same text, other
        # reference time) sees the two candidates in swapped roles; candidate spans never equal the gold's
        order = (r0, r1) if ts == ts1 else (r1, r0)
        cands = [CT(_clone(order[0], 2, 7), prods[0], 0.5, "", []), CT(_clone(order[1], 1, 4), prods[1], 0.25, "", [])][:n]
        return ([None] if none_first else []) + cands
    entries = [CO.TimeParseEntry("txt", ts1, _clone(g, 0, 0))]
    if two:
        entries.append(CO.TimeParseEntry("txt", ts2, _clone(g2, 0, 0)))
    old = CO.ctparse_gen
    CO.ctparse_gen = lambda text, ts, **k: iter(stream_for(ts))
    try:
        got = list(CO.make_partial_rule_dataset(entries, scorer=None, timeout=0, max_stack_depth=0))
    finally:
        CO.ctparse_gen = old
    exp = []
    for e, gold, order in zip(entries, (g, g2), ((r0, r1), (r1, r0))):
        for prod, ri in list(zip(prods, order))[:n]:
            label = (ri == gold)                  # RESOLUTIONS are pairwise different values
            for i in range(1, len(prod) + 1):
                exp.append(([str(p) for p in prod[:i]], label))
    if got != exp:
        return False, "entries %r: samples %r, expected %r" % ([(e.text, e.ts.isoformat(), str(e.gold)) for e in entries], got, exp)
    return True, ""


def ob_dataset(n: int, r0: int, r1: int, l0: int, g: int, g2: int, none_first: bool, two: bool) -> bool:
    """
    pre: 0 <= n <= 2 and 0 <= r0 < 4 and 0 <= r1 < 4 and 0 <= l0 <= 1 and 0 <= g < 4 and 0 <= g2 <= 1
    post: _
    """
    with NoTracing():
        gg = _pick(g, 4)
        return dataset_check(_pick(n, 3), RES4[_pick(r0, 4)], RES4[_pick(r1, 4)], [1, 3][_pick(l0, 2)], RES4[gg], RES4[(gg + _pick(g2, 2)) % 4],
                             bool(_pick(none_first, 2)), bool(_pick(two, 2)))[0]


def why_dataset(n, r0, r1, l0, g, g2, none_first, two):
    return dataset_check(n, RES4[r0], RES4[r1], [1, 3][l0], RES4[g], RES4[(g + g2) % 4], bool(none_first), bool(two))[1]


def ob_dataset_partial(n: int, r0: int, r1: int, l0: int, g: int, g2: int, none_first: bool, two: bool) -> bool:
    """
    pre: 0 <= n <= 2 and 0 <= r0 < 4 and 0 <= r1 < 4 and 0 <= l0 <= 1 and 0 <= g < 4 and 0 <= g2 <= 1
    post: _
    """
    with NoTracing():
        gg = _pick(g, 4)
        return dataset_check(_pick(n, 3), RES4P[_pick(r0, 4)], RES4P[_pick(r1, 4)], [1, 3][_pick(l0, 2)], RES4P[gg], RES4P[(gg + _pick(g2, 2)) % 4],
                             bool(_pick(none_first, 2)), bool(_pick(two, 2)))[0]


def why_dataset_partial(n, r0, r1, l0, g, g2, none_first, two):
    return dataset_check(n, RES4P[r0], RES4P[r1], [1, 3][l0], RES4P[g], RES4P[(g + g2) % 4], bool(none_first), bool(two))[1]


# ------------------------------------------------------------------ pipeline-level differential (C16 / C17)
import math
from ctparse.nb_scorer import train_naive_bayes

DOCS = [["a"], ["b"], ["a", "a"], ["a", "b"], ["b", "a"], ["b", "b", "a"]]
ND = len(DOCS)


def _ref_nb(X, y):
    """reference: Laplace-smoothed multinomial NB over all 1-3-grams, written from the textbook"""
    grams = [_spec_ngrams(d) for d in X]
    vocab = sorted({g for gs in grams for g in gs})
    cnt = {True: {g: 1.0 for g in vocab}, False: {g: 1.0 for g in vocab}}
    for gs, lab in zip(grams, y):
        for g in gs:
            cnt[lab][g] += 1
    tot = {k: sum(v.values()) for k, v in cnt.items()}
    npos = sum(1 for v in y if v)
    prior = {True: math.log(npos / len(y)), False: math.log((len(y) - npos) / len(y))}

    def odds(doc):
        s = prior[True] - prior[False]
        for g in _spec_ngrams(doc):
            if g in cnt[True]:
                s += math.log(cnt[True][g] / tot[True]) - math.log(cnt[False][g] / tot[False])
        return s
    return odds


def fit_check(X, y):
    if all(y) or not any(y):
        return True, "single-class corpus (outside the claim)"
    model = train_naive_bayes(X, y)
    ref = _ref_nb(X, y)
    for doc in X + [["a", "zz"], [], ["a", "zz", "b"], ["b", "zz", "a"], ["a", "zz", "a"], ["zz"]]:
        p = model.predict_log_proba([doc])[0]
        if not all(math.isfinite(v) for v in p) or abs(math.exp(p[0]) + math.exp(p[1]) - 1) > 1e-9:
            return False, "prediction for %r not finite / not normalised: %r" % (doc, p)
        if abs((p[1] - p[0]) - ref(doc)) > 1e-9:
            return False, "log-odds of %r: model %.6f, textbook %.6f (corpus %r, labels %r)" % (doc, p[1] - p[0], ref(doc), X, y)
    # duplicating a positive example never lowers the score of its trace
    for i, (doc, lab) in enumerate(zip(X, y)):
        if lab:
            before = model.predict_log_proba([doc])[0]
            m2 = train_naive_bayes(X + [doc], y + [True])
            after = m2.predict_log_proba([doc])[0]
            if (after[1] - after[0]) < (before[1] - before[0]) - 1e-12:
                return False, "duplicating the positive example %r lowered its log-odds from %.6f to %.6f (corpus %r, labels %r)" % (doc, before[1] - before[0], after[1] - after[0], X, y)
    return True, ""


def ob_fit(n: int, d0: int, d1: int, d2: int, d3: int, y0: bool, y1: bool, y2: bool, y3: bool) -> bool:
    """
    pre: 2 <= n <= NDOCS and 0 <= d0 < ND and 0 <= d1 < ND and 0 <= d2 < ND and 0 <= d3 < ND
    pre: (n > 3 or (d3 == 0 and not y3)) and (n > 2 or (d2 == 0 and not y2))
    post: _
    """
    with NoTracing():
        nn = _pick(n, 5)
        X = [list(DOCS[_pick(d, ND)]) for d in (d0, d1, d2, d3)][:nn]
        y = [bool(_pick(v, 2)) for v in (y0, y1, y2, y3)][:nn]
        return fit_check(X, y)[0]


def why_fit(n, d0, d1, d2, d3, y0, y1, y2, y3):
    return fit_check([list(DOCS[d]) for d in (d0, d1, d2, d3)][:n], [bool(v) for v in (y0, y1, y2, y3)][:n])[1]


NDOCS = int(os.environ.get("VQ_NDOCS", "3"))
