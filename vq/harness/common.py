"""Shared helpers of the CrossHair harnesses: access to the *real* rule bodies and
predicates through the live registry of /repo, Time construction by shape, case-split
cell constants, API-level replay helpers."""
import os
import sys
from datetime import datetime
from typing import Optional

import ctparse  # noqa: F401  (package import populates the rule registry)
import ctparse.ctparse  # noqa: F401
from ctparse.rule import rules as REG
from ctparse.types import Time, Interval, Duration, DurationUnit, pod_hours, Artifact, RegexMatch

CT = sys.modules["ctparse.ctparse"]
PP = sys.modules["ctparse.partial_parse"]
RU = sys.modules["ctparse.rule"]
TR = sys.modules["ctparse.time.rules"]
TY = sys.modules["ctparse.types"]
PL = sys.modules["ctparse.time.postprocess_latent"]

PODS = sorted(pod_hours)
NPODS = len(PODS)

# case-split cell (DESIGN §2.1): concrete reference year / month of this process
CELL_Y = int(os.environ.get("VQ_Y", "2024"))
CELL_M = int(os.environ.get("VQ_M", "2"))


def body(name):
    """the undecorated body of a registered rule (the wrapper only adds update_span)"""
    return REG[name][0].__closure__[0].cell_contents


def wrapper(name):
    return REG[name][0]


def preds(name):
    return REG[name][1]


class G:
    """regex-match group stub: `.group(name)` answers from a dict (missing -> None).
    Stands for `m.match` of a RegexMatch whose group texts satisfy the token lemmas (E2)."""

    def __init__(self, **groups):
        self.g = groups

    def group(self, name):
        return self.g.get(name)


class M:
    """RegexMatch stand-in with a span, carrying a group stub"""

    def __init__(self, g=None, mstart=0, mend=1):
        self.match = g if g is not None else G()
        self.mstart = mstart
        self.mend = mend


NOMATCH = M()


def parse(text, ts, **kw):
    kw.setdefault("timeout", 0)
    return CT.ctparse(text, ts=ts, **kw)


def parse_all(text, ts, **kw):
    kw.setdefault("timeout", 0)
    return [p for p in CT.ctparse_gen(text, ts=ts, **kw) if p is not None]


def conc(x, lo, hi):
    """case split inside one obligation: on each path x becomes the concrete integer it equals
    (CrossHair forks on the comparisons; all values lo..hi are covered)"""
    for v in range(lo, hi + 1):
        if x == v:
            return v
    return x
