"""Lifting a rule-level counterexample to the public API (DESIGN §2.5).

1. *unparse*: the abstract arguments (Time / Interval / Duration values, regex group
   assignments) are turned into a text whose tokens derive them;
2. *reach*: the text is parsed by the real `ctparse_gen` (no timeout, no depth limit) with
   recording wrappers around the registered rules; the rule under suspicion must have been
   called with arguments equal by value to the solver's;
3. *effect*: the property's own observable is evaluated on that parse:
     C01  an exception escapes ctparse_gen / ctparse / str / repr
     C02  some streamed candidate is ill-formed, or an accessor raises, or its span is bad
     FRAME (C15, C12) the reached call modified its arguments
     default: the reached call itself raised / returned an ill-formed value / mutated.
If the solver's values are not reachable as they are, friendlier values (years 2020/2024, plain
parts of day) are substituted as long as the kernel still fails on them.
"""
import os
import copy
from datetime import datetime

import regex as _regex_mod

from vq.harness.common import REG, CT, Time, Interval, Duration, DurationUnit, pod_hours
from vq.spec.cal import mdays
from vq.spec.wf import wf_time, key_time
from vq import wfgen as W
from vq.rx import groups as RG

PROP = os.environ.get("VQ_PROP", "")
DAYS_EN = ["monday", "tuesday", "wednesday", "thursday", "friday", "saturday", "sunday"]
MONTHS_EN = ["january", "february", "march", "april", "may", "june", "july", "august", "september",
             "october", "november", "december"]
UNIT_WORD = {"minutes": "minutes", "hours": "hours", "days": "days", "nights": "nights", "weeks": "weeks", "months": "months"}
BASE_PODS = {"first": "earliest", "last": "latest", "earlymorning": "very early", "lateevening": "very late",
             "morning": "morning", "forenoon": "forenoon", "afternoon": "afternoon", "noon": "noon",
             "evening": "evening", "night": "night"}


def _ordinal(n):
    if 10 <= n % 100 <= 20:
        return "%dth" % n
    return "%d%s" % (n, {1: "st", 2: "nd", 3: "rd"}.get(n % 10, "th"))


def pod_text(pod):
    words = []
    p = pod
    while p not in ("morning", "forenoon", "afternoon", "noon", "evening", "night", "first", "last"):
        for pre in ("very", "early", "late"):
            if p.startswith(pre) and len(p) > len(pre):
                words.append(pre)
                p = p[len(pre):]
                break
        else:
            return None
    return " ".join(words + [BASE_PODS[p]])


def time_text(t):
    """a text whose derivation yields the Time value t (None if no notation exists)"""
    have = {f for f in W.FIELDS if getattr(t, f) is not None}
    parts = []
    if "DOW" in have:
        if have - {"DOW", "POD"}:
            return None
        parts.append(DAYS_EN[t.DOW])
    date = have & {"year", "month", "day"}
    if date == {"year", "month", "day"}:
        if 1900 <= t.year <= 2029:
            parts.append("%d.%d.%d" % (t.day, t.month, t.year))
        else:
            return None
    elif date == {"month", "day"}:
        parts.append("%d.%d." % (t.day, t.month))
    elif date == {"day"}:
        parts.append(_ordinal(t.day))
    elif date == {"month"}:
        parts.append(MONTHS_EN[t.month - 1])
    elif date == {"year"}:
        if 1900 <= t.year <= 2029:
            parts.append("%d" % t.year)
        else:
            return None
    elif date:
        return None
    if "hour" in have:
        if "minute" in have:
            parts.append("%d:%02d" % (t.hour, t.minute))
        else:
            parts.append("%d o'clock" % t.hour)
    elif "minute" in have:
        return None
    if "POD" in have:
        pt = pod_text(t.POD)
        if pt is None:
            return None
        parts.append(pt)
    return " ".join(parts) if parts else None


def art_text(a):
    if isinstance(a, Time):
        return time_text(a)
    if isinstance(a, Duration):
        return "%d %s" % (a.value, UNIT_WORD[a.unit.value])
    if isinstance(a, Interval):
        if a.t_from is None:
            x = time_text(a.t_to)
            return None if x is None else "before " + x
        if a.t_to is None:
            x = time_text(a.t_from)
            return None if x is None else "after " + x
        x, y = time_text(a.t_from), time_text(a.t_to)
        return None if x is None or y is None else x + " - " + y
    return None


# ------------------------------------------------------------------ text for a regex stub

def _best_branch(branches, pres):
    best, score = None, -1
    for b in branches:
        for p in RG.presence(b):
            if p <= pres and len(p) > score:
                best, score = b, len(p)
    return best


def gen_text(n, defines, pres, values):
    """a string of the pattern in which exactly the groups of `pres` participate and numeric /
    textual groups have the given values"""
    k = n[0]
    if k == "seq":
        return "".join(gen_text(x, defines, pres, values) for x in n[1])
    if k == "alt":
        b = _best_branch(n[1], pres)
        return gen_text(b if b is not None else n[1][0], defines, pres, values)
    if k == "grp":
        if n[1] and n[1] in values:
            v = values[n[1]]
            if isinstance(v, W.Num):
                lang = RG.finite_language(n[2], defines)
                for cand in ("%d" % v.v, "%02d" % v.v, "%04d" % v.v):
                    if lang is None or cand in lang:
                        return cand
                return "%d" % v.v
            if isinstance(v, str) and v != "x":
                return v
        return gen_text(n[2], defines, pres, values)
    if k == "opt":
        inner = RG.presence(n[1])
        if any(p and p <= pres for p in inner):
            return gen_text(n[1], defines, pres, values)
        return ""
    if k == "star":
        return ""
    if k == "plus":
        return gen_text(n[1], defines, pres, values)
    if k == "chr":
        return n[1]
    if k == "cls":
        cs = RG._cls_chars(n[2], n[1])
        return cs[0] if cs else "x"
    if k == "esc":
        return {"d": "7", "s": " ", "w": "a"}.get(n[1], "")
    if k == "call":
        return gen_text(defines[n[1]], defines, pres, values)
    if k == "any":
        return "."
    return ""


def stub_text(rid, stub):
    pat = W.REGEX[rid].pattern
    defines, body, rname = RG.split_pattern(pat)
    pres = frozenset(stub.match.g)
    txt = gen_text(body, defines, pres, stub.match.g).strip()
    return txt or None


def stub_equal(stub, real):
    """value equality of a group stub and a real RegexMatch: same participating named groups
    (of the stub's pattern) and same numeric values"""
    info = W.pattern_info(real.id)
    names = sorted({g for p in info["pres"] for g in p})
    for g in names:
        rv = real.match.group(g)
        sv = stub.match.g.get(g)
        if (rv is None or rv == "") != (sv is None):
            return False
        if sv is not None and isinstance(sv, W.Num):
            try:
                if int(rv) != sv.v:
                    return False
            except ValueError:
                return False
        elif sv is not None and isinstance(sv, str) and sv != "x" and g == "ampm":
            if rv.strip().lower() != sv.strip().lower():
                return False
    return True


def val(a):
    if a is None:
        return None
    if isinstance(a, Time):
        return ("T",) + key_time(a)
    if isinstance(a, Interval):
        return ("I", val(a.t_from), val(a.t_to))
    if isinstance(a, Duration):
        return ("D", a.value, a.unit)
    return ("M", getattr(a, "id", None))


def args_equal(sol, real):
    if len(sol) != len(real):
        return False
    for s, r in zip(sol, real):
        if isinstance(s, W.StubMatch):
            if not hasattr(r, "match") or not hasattr(r, "id"):
                return False
            if not stub_equal(s, r):
                return False
        elif val(s) != val(r):
            return False
    return True


# ------------------------------------------------------------------ candidate checks (C02)

PODSET = set(pod_hours)


def candidate_defects(res, txt_len):
    """ill-formedness of one streamed resolution, by the text of property C02"""
    out = []

    def chk_time(t, top):
        if not wf_time(t, PODSET):
            out.append("ill-formed value %s" % (t,))
    if isinstance(res, Time):
        chk_time(res, True)
        ends = [res]
    elif isinstance(res, Interval):
        ends = [e for e in (res.t_from, res.t_to) if e is not None]
        if not ends:
            out.append("interval without ends")
        for e in ends:
            chk_time(e, False)
    else:
        ends = []
        if isinstance(res, Duration) and not (isinstance(res.value, int) and res.value >= 0):
            out.append("negative duration")
    if isinstance(res, (Time, Interval)):
        for acc in ("start", "end"):
            try:
                getattr(res, acc)
            except Exception as e:
                out.append("accessor .%s raised %s" % (acc, type(e).__name__))
    for e in ends:
        if e.year is not None and e.month is not None and e.day is not None:
            try:
                e.dt
            except Exception as ex:
                out.append("accessor .dt raised %s: %s" % (type(ex).__name__, ex))
    if isinstance(res, Interval) and res.t_from is not None and res.t_to is not None \
            and res.t_from.hasDate and res.t_to.hasDate:
        try:
            if res.start.dt > res.end.dt:
                out.append("interval start after its end: %s" % (res,))
        except Exception:
            pass
    if not (0 <= res.mstart < res.mend <= txt_len):
        out.append("span [%d-%d] not inside the normalised text of length %d" % (res.mstart, res.mend, txt_len))
    return out


# ------------------------------------------------------------------ recording parse

def recorded_parse(text, ts, rule, latent=True):
    """-> dict(calls=[...for `rule`], escaped=exception text or None, candidates=[...])"""
    calls = []
    orig = REG[rule]

    def rec(ts_, *args):
        before = [_snap(a) for a in args]
        ent = {"args": args, "args_before": [copy.deepcopy(a) if not hasattr(a, "match") else a for a in args]}
        try:
            r = orig[0](ts_, *args)
            ent["result"] = r
            ent["exception"] = None
        except Exception as e:
            ent["exception"] = "%s: %s" % (type(e).__name__, e)
            calls.append(ent)
            raise
        ent["mutated"] = [_snap(a) for a in args] != before
        ent["aliased"] = any(r is a for a in args) if r is not None else False
        calls.append(ent)
        return r
    REG[rule] = (rec, orig[1])
    out = {"calls": calls, "escaped": None, "candidates": []}
    try:
        try:
            for p in CT.ctparse_gen(text, ts=ts, timeout=0, max_stack_depth=0, latent_time=latent):
                if p is not None:
                    out["candidates"].append(p)
        except Exception as e:
            out["escaped"] = "%s: %s" % (type(e).__name__, e)
    finally:
        REG[rule] = orig
    return out


def _snap(a):
    if a is None:
        return None
    if isinstance(a, Time):
        return ("T", key_time(a), a.mstart, a.mend)
    if isinstance(a, Interval):
        return ("I", _snap(a.t_from), _snap(a.t_to), a.mstart, a.mend)
    if isinstance(a, Duration):
        return ("D", a.value, a.unit, a.mstart, a.mend)
    return ("M", a.mstart, a.mend)


def texts_for(spec, args):
    parts = []
    for (kind, payload), a in zip(spec["args"], args):
        if kind == "rm":
            t = stub_text(payload, a)
        else:
            t = art_text(a)
        if t is None:
            return None
        parts.append(t)
    return " ".join(parts)


def evaluate(spec, args, ts, why):
    text = texts_for(spec, args)
    if text is None:
        return {"reproduced": False, "reach": "no surface form for these arguments"}
    rule = spec["rule"]
    info = {"text": text, "ts": ts.isoformat(), "rule": rule, "kernel_failure": why}
    reached = None
    rp = None
    for latent in (True, False):
        rp = recorded_parse(text, ts, rule, latent)
        for c in rp["calls"]:
            if args_equal(args, c["args_before"]):
                reached = c
                break
        if reached:
            break
    if reached is None:
        info["reach"] = "rule not called with these arguments ({} calls of {} seen)".format(len(rp["calls"]), rule)
        info["reproduced"] = False
        return info
    info["reach"] = "reached"
    norm_len = len(CT._preprocess_string(text))
    effects = []
    if rp["escaped"]:
        effects.append(("C01", "exception escapes ctparse_gen: " + rp["escaped"]))
    try:
        r1 = CT.ctparse(text, ts=ts, timeout=0, max_stack_depth=0)
        str(r1), repr(r1)
    except Exception as e:
        effects.append(("C01", "exception escapes ctparse/str/repr: %s: %s" % (type(e).__name__, e)))
    for cand in rp["candidates"]:
        for d in candidate_defects(cand.resolution, norm_len):
            effects.append(("C02", "candidate %r: %s" % (cand.resolution, d)))
    if "shared between applications" in (why or ""):
        # the rule hands out a shared object: let the expression occur twice and watch whether a
        # value produced for the first occurrence is rewritten by the second
        text2 = text + " xyz " + text
        seen = {}
        orig = REG[rule]

        def rec2(ts_, *a):
            r = orig[0](ts_, *a)
            if r is not None:
                if id(r) in seen and seen[id(r)][1] != _snap(r):
                    effects.append(("FRAME", "in %r a value of %s produced earlier (%s) was rewritten by a later application (now %s)" % (text2, rule, seen[id(r)][1], _snap(r))))
                seen[id(r)] = (r, _snap(r))
            return r
        REG[rule] = (rec2, orig[1])
        try:
            try:
                list(CT.ctparse_gen(text2, ts=ts, timeout=0, max_stack_depth=0))
            except Exception as e:      # noqa
                effects.append(("C01", "exception: %r" % (e,)))
        finally:
            REG[rule] = orig
        info["text_doubled"] = text2
    if reached.get("mutated") or reached.get("aliased"):
        effects.append(("FRAME", "the call {}({}) modified or handed back its argument".format(rule, ", ".join(str(a) for a in reached["args_before"]))))
    if reached.get("exception"):
        effects.append(("RULE", "rule raised " + reached["exception"]))
    info["effects"] = [list(e) for e in effects[:6]]
    want = {"C01": ("C01",), "C02": ("C02", "C01"), "C15": ("FRAME",), "C12": ("FRAME",)}.get(PROP)
    if want is None:
        info["reproduced"] = bool(effects)
    else:
        info["reproduced"] = any(e[0] in want for e in effects)
    return info


def evaluate_pseudo(spec, args, ts, why):
    """@latent / @acc: reach = some candidate streamed with latent_time off has exactly this value"""
    a = args[0]
    text = art_text(a)
    if text is None:
        return {"reproduced": False, "reach": "no surface form for this value"}
    info = {"text": text, "ts": ts.isoformat(), "rule": spec["rule"], "kernel_failure": why}
    effects = []
    try:
        off = [c for c in CT.ctparse_gen(text, ts=ts, timeout=0, max_stack_depth=0, latent_time=False) if c is not None]
    except Exception as e:
        off = []
        effects.append(("C01", "exception escapes ctparse_gen: %s: %s" % (type(e).__name__, e)))
    if not any(val(c.resolution) == val(a) for c in off):
        info["reach"] = "no candidate with this value is streamed"
        info["reproduced"] = False
        return info
    info["reach"] = "reached"
    norm_len = len(CT._preprocess_string(text))
    for latent in (True, False):
        try:
            for c in CT.ctparse_gen(text, ts=ts, timeout=0, max_stack_depth=0, latent_time=latent):
                if c is None:
                    continue
                for d in candidate_defects(c.resolution, norm_len):
                    effects.append(("C02", "latent_time=%s candidate %r: %s" % (latent, c.resolution, d)))
        except Exception as e:
            effects.append(("C01", "exception escapes ctparse_gen: %s: %s" % (type(e).__name__, e)))
    info["effects"] = [list(e) for e in effects[:6]]
    want = {"C01": ("C01",), "C02": ("C02", "C01")}.get(PROP)
    info["reproduced"] = any(want is None or e[0] in want for e in effects)
    return info


GRID = {"year": [2020, 2024, 2023, 2021], "hour": [0, 1, 9, 11, 12, 13, 14, 23], "minute": [0, 1, 30, 59],
        "day": [1, 15, 28, 29, 30, 31], "month": [1, 2, 4, 12]}


def lift_step(spec, p, args, why, ts):
    """try the solver's values, then nearby friendlier values that still fail on the kernel
    (years 2020.., plain parts of day, round clock values) until one is reachable by a text"""
    import itertools
    import vq.harness.h_wf as H
    ev = evaluate_pseudo if spec["rule"].startswith("@") else evaluate
    first = ev(spec, args, ts, why)
    if first.get("reproduced"):
        return first
    tried = [first]
    p = list(p)
    slots = {}          # field -> [param index]
    for ent in H.LAYOUT:
        for sl in ([ent.get("slots")] if ent["k"] == "T" else [ent.get("a"), ent.get("b")] if ent["k"] == "I" else []):
            if sl:
                for f, i in sl.items():
                    slots.setdefault(f, []).append(i)
    friendly_pods = [H.PODS.index(x) for x in ("morning", "afternoon", "evening", "night", "earlymorning") if x in H.PODS]
    cands = []
    bases = [list(p)]
    if slots.get("year"):
        for y in GRID["year"]:
            q = list(p)
            for s_ in slots["year"]:
                q[s_] = y
            bases.append(q)
    if slots.get("POD"):
        for base in list(bases):
            for fp in friendly_pods:
                q = list(base)
                for s_ in slots["POD"]:
                    q[s_] = fp
                bases.append(q)
    cands += bases[1:]
    # single- and pairwise substitutions on clock / day / month slots
    small = [(i, v) for f in ("hour", "minute", "day", "month") for i in slots.get(f, []) for v in GRID[f]]
    for base in bases[:6]:
        for (i, v) in small:
            q = list(base)
            q[i] = v
            cands.append(q)
        for (i, v), (j, w) in itertools.combinations(small, 2):
            if i != j:
                q = list(base)
                q[i], q[j] = v, w
                cands.append(q)
                if len(cands) > 4000:
                    break
    seen = {tuple(p)}
    lifted = 0
    for q in cands:
        tq = tuple(q)
        if tq in seen:
            continue
        seen.add(tq)
        try:
            if not H.pre_ok(tq):
                continue
            ok, why2 = H.run_step(tq)
        except Exception:
            continue
        if ok or why2.split(":")[0] != why.split(":")[0]:
            continue
        r = ev(spec, H.build_args(tq), ts, why2)
        lifted += 1
        r["substituted_params"] = list(tq)
        tried.append(r)
        if r.get("reproduced"):
            return r
        if lifted > 40:
            break
    first["alternatives_tried"] = len(tried) - 1
    first["reach_of_alternatives"] = [t.get("reach") for t in tried[1:6]]
    return first


def contract(rule, argkinds, args, ts, expected, latent=False, post=None):
    """API replay of a rule-contract counterexample.
    argkinds: [("rm", regex id) | ("art", None)], args: the solver's arguments (stubs / artifacts),
    expected: the value (lift.val form) the specification demands from this rule application, or
    None for 'rejected'.  Reproduced iff a real parse of the unparsed text calls the rule with
    exactly these arguments, the call's result differs from `expected`, and that wrong value is
    streamed (or the expected one is missing from the stream).
    `post`: optional (expected, observed_candidates) -> bool override of the effect test."""
    spec = {"rule": rule, "args": [[k, p] for k, p in argkinds]}
    text = texts_for(spec, args)
    if text is None:
        return {"reproduced": False, "reach": "no surface form for these arguments"}
    info = {"text": text, "ts": ts.isoformat(), "rule": rule, "expected": repr(expected), "latent_time": latent}
    rp = recorded_parse(text, ts, rule, latent)
    reached = None
    for c in rp["calls"]:
        if args_equal(args, c["args_before"]):
            reached = c
            break
    if reached is None:
        info["reach"] = "rule not called with these arguments ({} calls seen)".format(len(rp["calls"]))
        info["reproduced"] = False
        return info
    info["reach"] = "reached"
    if reached.get("exception"):
        info["observed"] = "raised " + reached["exception"]
        info["reproduced"] = True
        return info
    got = val(reached.get("result"))
    info["observed_rule_result"] = repr(got)
    streamed = [val(c.resolution) for c in rp["candidates"]]
    info["streamed"] = [repr(s) for s in streamed[:8]]
    if got == expected:
        info["reproduced"] = False
        return info
    if post is not None:
        info["reproduced"] = bool(post(expected, streamed))
    elif expected is None:
        info["reproduced"] = got in streamed or True   # a value was built where the specification rejects
    else:
        info["reproduced"] = (expected not in streamed) or (got in streamed)
    return info
