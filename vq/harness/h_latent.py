"""C04 — partial dates resolve to the nearest future occurrence, written fields preserved.

ruleLatentDOM / ruleLatentDOY / ruleLatentPOD: year concrete (cell VQ_Y), month, day, time of
day (incl. seconds) and the expression's fields symbolic.  ruleLatentDOW: see h_rel (year and
month concrete).  The oracle is the *exact* nearest matching date computed by integer calendar
arithmetic, which implies the property's three clauses (not before the reference date, no
matching date strictly in between, written fields preserved).
"""
from datetime import datetime

import os
from vq.harness.common import body, Time, CELL_Y, PODS, NPODS, pod_hours, parse

# case split on the part of day: this process checks PODS[P_LO:P_HI]
P_LO = int(os.environ.get("VQ_PLO", "0"))
P_HI = int(os.environ.get("VQ_PHI", str(NPODS)))
from vq.spec.cal import mdays, is_leap, add_days_small
from vq.spec.wf import key_time

_latentdom = body("ruleLatentDOM")
_latentdoy = body("ruleLatentDOY")
_latentpod = body("ruleLatentPOD")


def _nm(y, m):
    return (y + 1, 1) if m == 12 else (y, m + 1)


def exp_dom(y, mo, d, dom):
    """first date strictly after (y, mo, d) whose day of month is dom"""
    if d < dom and dom <= mdays(y, mo):
        return (y, mo, dom)
    y2, m2 = _nm(y, mo)
    if dom <= mdays(y2, m2):
        return (y2, m2, dom)
    y3, m3 = _nm(y2, m2)
    return (y3, m3, dom)          # two consecutive months never both lack the same day


def exp_doy(y, mo, d, mm, dd):
    """first date on or after (y, mo, d) with month mm and day dd (29 Feb: next leap year)"""
    yy = y if (mm > mo or (mm == mo and dd >= d)) else y + 1
    if mm == 2 and dd == 29:
        for _ in range(8):
            if is_leap(yy):
                break
            yy += 1
    return (yy, mm, dd)


def _k_latentdom(mo, d, h, mi, s, dom):
    # kernel WITHOUT a contract: CrossHair short-circuits calls to functions that carry one
    # (it assumes their postcondition), which would make a wrapper obligation vacuous
    r = _latentdom(datetime(CELL_Y, mo, d, h, mi, s), Time(day=dom))
    e = exp_dom(CELL_Y, mo, d, dom)
    return r is not None and key_time(r) == (e[0], e[1], e[2], None, None, None, None)


def ob_latentdom(mo: int, d: int, h: int, mi: int, s: int, dom: int) -> bool:
    """
    pre: 1 <= mo <= 12 and 1 <= d <= mdays(CELL_Y, mo)
    pre: 0 <= h <= 23 and 0 <= mi <= 59 and 0 <= s <= 59 and 1 <= dom <= 31
    post: _
    """
    return _k_latentdom(mo, d, h, mi, s, dom)


def ob_latentdoy(mo: int, d: int, h: int, mi: int, s: int, mm: int, dd: int) -> bool:
    """
    pre: 1 <= mo <= 12 and 1 <= d <= mdays(CELL_Y, mo)
    pre: 0 <= h <= 23 and 0 <= mi <= 59 and 0 <= s <= 59
    pre: 1 <= mm <= 12 and 1 <= dd <= mdays(None, mm)
    post: _
    """
    return _k_latentdoy(mo, d, h, mi, s, mm, dd)


def _k_latentdoy(mo, d, h, mi, s, mm, dd):
    r = _latentdoy(datetime(CELL_Y, mo, d, h, mi, s), Time(month=mm, day=dd))
    e = exp_doy(CELL_Y, mo, d, mm, dd)
    return r is not None and key_time(r) == (e[0], e[1], e[2], None, None, None, None)


def exp_pod(y, mo, d, h, pod):
    """today iff the table's start hour of that part of day is still ahead of ts (the code's
    tie rule, kept as the specification), otherwise tomorrow; POD carried over, no clock"""
    h_from = pod_hours[pod][0]
    if h_from > h:
        return (y, mo, d)
    return add_days_small(y, mo, d, 1)


def ob_latentpod(mo: int, d: int, h: int, mi: int, s: int, pi: int) -> bool:
    """
    pre: 1 <= mo <= 12 and 1 <= d <= mdays(CELL_Y, mo)
    pre: 0 <= h <= 23 and 0 <= mi <= 59 and 0 <= s <= 59 and P_LO <= pi < P_HI
    post: _
    """
    pod = PODS[pi]
    r = _latentpod(datetime(CELL_Y, mo, d, h, mi, s), Time(POD=pod))
    e = exp_pod(CELL_Y, mo, d, h, pod)
    return r is not None and key_time(r) == (e[0], e[1], e[2], None, None, None, pod)


def ob_podtable(pi: int) -> bool:
    """
    pre: 0 <= pi < NPODS
    post: _
    """
    a, b = pod_hours[PODS[pi]]
    return 0 <= a <= 23 and 0 <= b <= 23


# ------------------------------------------------------------------ lift

MONTHS_EN = ["january", "february", "march", "april", "may", "june", "july", "august", "september",
             "october", "november", "december"]


def _ordinal(n):
    if 10 <= n % 100 <= 20:
        return "%dth" % n
    return "%d%s" % (n, {1: "st", 2: "nd", 3: "rd"}.get(n % 10, "th"))


def _api(texts, ts, expected):
    tried = []
    for text in texts:
        p = parse(text, ts)
        got = None
        if p is not None and p.resolution is not None:
            got = key_time(p.resolution) if isinstance(p.resolution, Time) else str(p.resolution)
        tried.append({"text": text, "ts": ts.isoformat(), "expected": list(expected), "observed": got})
        if got != tuple(expected):
            return {"reproduced": True, "witness": tried[-1], "tried": tried}
    return {"reproduced": False, "tried": tried}


def lift_latentdom(mo, d, h, mi, s, dom):
    e = exp_dom(CELL_Y, mo, d, dom)
    return _api(["on the " + _ordinal(dom), "am %d." % dom], datetime(CELL_Y, mo, d, h, mi, s), e + (None,) * 4)


def lift_latentdoy(mo, d, h, mi, s, mm, dd):
    e = exp_doy(CELL_Y, mo, d, mm, dd)
    return _api(["%s %s" % (MONTHS_EN[mm - 1], _ordinal(dd)), "%d.%d." % (dd, mm)],
                datetime(CELL_Y, mo, d, h, mi, s), e + (None,) * 4)


POD_WORDS = {"morning": "morning", "afternoon": "afternoon", "evening": "evening", "night": "night",
             "noon": "noon", "forenoon": "forenoon", "earlymorning": "very early", "lateevening": "very late",
             "first": "earliest", "last": "latest"}


def lift_latentpod(mo, d, h, mi, s, pi):
    pod = PODS[pi]
    if pod not in POD_WORDS:
        return {"reproduced": False, "note": "no surface form for modifier chain " + pod}
    e = exp_pod(CELL_Y, mo, d, h, pod)
    return _api([POD_WORDS[pod]], datetime(CELL_Y, mo, d, h, mi, s), e + (None, None, None, pod))


# ---- part of day with the table's start hour as a symbolic integer ----------------------
# ruleLatentPOD reads the part of day only through pod_hours[pod.POD]; the table is replaced
# by a one-entry table whose start hour is symbolic, so one obligation covers every start
# hour 0..23 (ob_podtable shows every real entry is in that range).
import ctparse.time.rules as _TR


def ob_latentpod_symhour(mo: int, d: int, h: int, mi: int, s: int, hf: int, ht: int) -> bool:
    """
    pre: 1 <= mo <= 12 and 1 <= d <= mdays(CELL_Y, mo)
    pre: 0 <= h <= 23 and 0 <= mi <= 59 and 0 <= s <= 59 and 0 <= hf <= 23 and 0 <= ht <= 23
    post: _
    """
    old = _TR.pod_hours
    _TR.pod_hours = {"_sym": (hf, ht)}
    try:
        r = _latentpod(datetime(CELL_Y, mo, d, h, mi, s), Time(POD="_sym"))
    finally:
        _TR.pod_hours = old
    e = (CELL_Y, mo, d) if hf > h else add_days_small(CELL_Y, mo, d, 1)
    return r is not None and key_time(r) == (e[0], e[1], e[2], None, None, None, "_sym")


# ---- year x month concrete (cell) variants --------------------------------------------
from vq.harness.common import CELL_M

MDC = mdays(CELL_Y, CELL_M)


def ob_latentdom_c(d: int, h: int, mi: int, s: int, dom: int) -> bool:
    """
    pre: 1 <= d <= MDC
    pre: 0 <= h <= 23 and 0 <= mi <= 59 and 0 <= s <= 59 and 1 <= dom <= 31
    post: _
    """
    return _k_latentdom(CELL_M, d, h, mi, s, dom)


def lift_latentdom_c(d, h, mi, s, dom):
    return lift_latentdom(CELL_M, d, h, mi, s, dom)


def ob_latentdoy_c(d: int, h: int, mi: int, s: int, mm: int, dd: int) -> bool:
    """
    pre: 1 <= d <= MDC
    pre: 0 <= h <= 23 and 0 <= mi <= 59 and 0 <= s <= 59
    pre: 1 <= mm <= 12 and 1 <= dd <= mdays(None, mm) and not (mm == 2 and dd == 29)
    post: _
    """
    return _k_latentdoy(CELL_M, d, h, mi, s, mm, dd)


def lift_latentdoy_c(d, h, mi, s, mm, dd):
    return lift_latentdoy(CELL_M, d, h, mi, s, mm, dd)


def ob_latentdoy_feb29_c(d: int, h: int, mi: int, s: int) -> bool:
    """
    pre: 1 <= d <= MDC
    pre: 0 <= h <= 23 and 0 <= mi <= 59 and 0 <= s <= 59
    post: _
    """
    return _k_latentdoy(CELL_M, d, h, mi, s, 2, 29)


def lift_latentdoy_feb29_c(d, h, mi, s):
    return lift_latentdoy(CELL_M, d, h, mi, s, 2, 29)
