"""Search-layer obligations (DESIGN §4 SEARCH): the real `_regex_stack`, `_match_rule`,
`_seq_match`, `PartialParse.apply_rule`, `_ctparse` and `ctparse` are executed symbolically.

The tokenizer is replaced by a stub returning genuine RegexMatch instances; for obligations
about `_ctparse` the registry is a small toy registry built with the real `regex_match` /
`dimension` constructors and the real wrapper logic (argument-preserving, deterministic rules:
what FRAME/WF establish for the real ones).  Scores handed to the search are wrapped in an object
with a constant `__format__` (the debug logging otherwise realises every score);
`Artifact.__hash__` runs untraced (CrossHair's own hash contract otherwise short-circuits).
"""
import itertools
import os
import sys
from datetime import datetime
from typing import List, Optional

import ctparse.ctparse  # noqa: F401
from ctparse.scorer import Scorer
from ctparse.types import Artifact, RegexMatch, Time
import ctparse.types as TY
from crosshair.tracers import NoTracing

C = sys.modules["ctparse.ctparse"]
PP = sys.modules["ctparse.partial_parse"]
RU = sys.modules["ctparse.rule"]
DEPTH = int(os.environ.get("VQ_DEPTH", "0"))
NSYM = int(os.environ.get("VQ_NSYM", "6"))
SMAX = int(os.environ.get("VQ_SMAX", "2"))


def _h(self):
    with NoTracing():
        return hash(tuple(getattr(self, a) for a in self._attrs))


TY.Artifact.__hash__ = _h
TS = datetime(2020, 1, 1)


# ------------------------------------------------------------------ STACK-GRAPH

class FakeTxt:
    def __init__(self, E):
        self.E = E

    def __getitem__(self, sl):
        return (self, sl.start, sl.stop)


class _WS:
    def fullmatch(self, tok):
        t, a, b = tok            # a = mend of match i = 2i+1, b = mstart of match j = 2j
        return True if t.E[(a - 1) // 2][b // 2] else None


class _RegexShim:
    VERSION1 = 0

    def compile(self, pat, flags=0):
        return _WS()


class FM:
    def __init__(self, i):
        self.mstart = 2 * i
        self.mend = 2 * i + 1
        self.id = 100 + i
        self.i = i

    def __repr__(self):
        return "m%d" % self.i


def _maximal_paths(n, E, ms):
    exp = []
    for r in range(1, n + 1):
        for idx in itertools.combinations(range(n), r):
            if not all(E[idx[k]][idx[k + 1]] for k in range(r - 1)):
                continue
            if any(E[p][idx[0]] for p in range(idx[0])):
                continue
            if any(E[idx[-1]][q] for q in range(idx[-1] + 1, n)):
                continue
            exp.append(tuple(ms[k] for k in idx))
    return exp


def ob_stack_graph(n: int, e01: bool, e02: bool, e03: bool, e04: bool, e12: bool, e13: bool, e14: bool,
                   e23: bool, e24: bool, e34: bool) -> bool:
    """
    pre: 1 <= n <= NMAX
    post: _
    """
    E = [[False, e01, e02, e03, e04], [False, False, e12, e13, e14], [False, False, False, e23, e24],
         [False, False, False, False, e34], [False] * 5]
    ms = [FM(i) for i in range(n)]
    old = C.regex
    C.regex = _RegexShim()
    calls = [0]

    def tick():
        calls[0] += 1
    try:
        got = C._regex_stack(FakeTxt(E), ms, tick)
    finally:
        C.regex = old
    exp = _maximal_paths(n, E, ms)
    return sorted(map(repr, got)) == sorted(map(repr, exp)) and len(got) == len(exp) and calls[0] >= len(got)


NMAX = int(os.environ.get("VQ_NMAX", "4"))


# ------------------------------------------------------------------ STACK-ADJ

class _WS2:
    def __init__(self, lo, hi):
        self.lo, self.hi = lo, hi

    def fullmatch(self, s):
        return True if (s.strip() == "" and self.lo <= len(s) and (self.hi is None or len(s) <= self.hi)) else None


class _RegexShim2:
    VERSION1 = 0

    def compile(self, pat, flags=0):
        # the separator pattern as the code compiles it: white space with a quantifier
        table = {r"\s*": (0, None), r"\s?": (0, 1), r"\s+": (1, None), r"\s": (1, 1)}
        assert pat in table, "unsupported separator pattern %r" % pat
        return _WS2(*table[pat])


ADJ_TEXTS = ["ab cd", "ab  cd", "abcd e", "ab-cd ", "a b c "]
ADJ_TI = int(os.environ.get("VQ_TI", "-1"))


def _frm(id, a, b, text=""):
    self = RegexMatch.__new__(RegexMatch)
    Artifact.__init__(self)
    self._attrs = ["mstart", "mend", "id"]
    self.key = "R%d" % id
    self.id = id
    self.match = _FakeM(text)
    self.mstart = a
    self.mend = b
    self._text = text
    return self


class _FakeM:
    def __init__(self, t):
        self.t = t

    def captures(self):
        return [self.t]


def ob_stack_adj(ti: int, a1: int, b1: int, a2: int, b2: int) -> bool:
    """
    pre: 0 <= ti < 5 and 0 <= a1 < b1 <= 6 and 0 <= a2 < b2 <= 6 and (a1, b1) <= (a2, b2) and a1 <= a2
    pre: ADJ_TI < 0 or ti == ADJ_TI
    post: _
    """
    if ADJ_TI >= 0:
        ti = ADJ_TI
    txt = ADJ_TEXTS[ti]
    m1, m2 = _frm(100, a1, b1), _frm(101, a2, b2)
    old = C.regex
    C.regex = _RegexShim2()
    try:
        got = C._regex_stack(txt, [m1, m2])
    finally:
        C.regex = old
    gap_ok = a2 >= b1 and all(ch in " \t" for ch in txt[b1:a2])
    if gap_ok:
        return len(got) == 1 and got[0][0] is m1 and got[0][1] is m2
    return len(got) == 2 and {got[0][0], got[1][0]} == {m1, m2} and len(got[0]) == 1 and len(got[1]) == 1


# ------------------------------------------------------------------ WINDOW / PREFILTER / APPLY

def ob_window(n: int, rl: int, b00: bool, b01: bool, b02: bool, b03: bool, b10: bool, b11: bool, b12: bool,
              b13: bool, b20: bool, b21: bool, b22: bool, b23: bool) -> bool:
    """
    pre: 0 <= n <= 4 and 0 <= rl <= 3
    post: _
    """
    tab = [[b00, b01, b02, b03], [b10, b11, b12, b13], [b20, b21, b22, b23]]
    seq = [_frm(100 + i, i, i + 1) for i in range(n)]

    def mkp(k):
        def p(x):
            return tab[k][x.mstart]
        return p
    rule = [mkp(k) for k in range(rl)]
    got = list(C._match_rule(seq, rule))
    if n == 0 or rl == 0:
        return got == []
    exp = [(i, i + rl) for i in range(n - rl + 1) if all(tab[k][i + k] for k in range(rl))]
    return got == exp


def _embeddable(ids, pat):
    n, m = len(ids), len(pat)

    def rec(i, j):
        if j == m:
            return True
        if pat[j] is None:
            return any(rec(i2, j + 1) for i2 in range(i + 1, n + 1))
        return i < n and ids[i] == pat[j] and rec(i + 1, j + 1)
    return any(rec(i, 0) for i in range(n + 1))


def ob_prefilter(n: int, m: int, s0: int, s1: int, s2: int, s3: int, p0: int, p1: int, p2: int) -> bool:
    """
    pre: 1 <= n <= 4 and 1 <= m <= 3
    pre: all(0 <= v <= 1 for v in (s0, s1, s2, s3))
    pre: all(-1 <= v <= 1 for v in (p0, p1, p2))
    pre: not (p0 >= 0 and p1 >= 0 and m >= 2) and not (p1 >= 0 and p2 >= 0 and m >= 3)
    post: _
    """
    ids = [s0, s1, s2, s3][:n]
    pat = [p0, p1, p2][:m]
    seq = [_frm(100 + v, i, i + 1) for i, v in enumerate(ids)]
    pats = [RU.regex_match(100 + v) if v >= 0 else RU.dimension(Time) for v in pat]
    got = next(PP._seq_match(seq, pats), None) is not None
    need = _embeddable(ids, [v if v >= 0 else None for v in pat])
    # the pre-filter never drops a rule some later derivation could apply
    return got or not need


class A(Artifact):
    def __init__(self, v):
        super().__init__()
        self._attrs = ["v"]
        self.v = v

    def __str__(self):
        return str(self.v)


def ob_apply(n: int, i: int, j: int, none: bool, v: int) -> bool:
    """
    pre: 1 <= n <= 4 and 0 <= i < j <= n and 0 <= v <= 9
    post: _
    """
    prod = tuple(A(k) for k in range(n))
    for k, a in enumerate(prod):
        a.mstart, a.mend = 2 * k, 2 * k + 1
    pp = PP.PartialParse(prod, (100, 101))
    marker = {"x": 1}
    pp.applicable_rules = marker
    seen = []

    def rule(ts, *args):
        seen.append(args)
        return None if none else A(100 + v)
    new = pp.apply_rule(TS, rule, "rX", (i, j))
    if seen != [prod[i:j]] or pp.prod != prod or pp.rules != (100, 101):
        return False
    if none:
        return new is None
    return new is not None and new.prod == prod[:i] + (A(100 + v),) + prod[j:] and new.rules == (100, 101, "rX") \
        and len(new.prod) == n - (j - i) + 1 and new.applicable_rules is marker \
        and new.max_covered_chars == new.prod[-1].mend - new.prod[0].mstart


# ------------------------------------------------------------------ toy registry for _ctparse

def mk_rules():
    reg = {}

    def add(name, pats, f):
        def wrapper(ts, *args):
            res = f(ts, *args)
            if res is not None:
                res.update_span(*args)
            return res
        reg[name] = (wrapper, pats)
    add("r1", [RU.regex_match(100)], lambda ts, m: A(1))
    add("r2", [RU.regex_match(101)], lambda ts, m: A(2))
    add("r2b", [RU.regex_match(101)], lambda ts, m: A(1))     # a second reading: the same values become derivable from both sequences
    add("r3", [RU.dimension(A), RU.dimension(A)], lambda ts, a, b: A(a.v * 10 + b.v) if a.v < 10 and b.v < 10 else None)
    add("r4", [RU.dimension(A)], lambda ts, a: A(a.v + 5) if a.v < 5 else None)
    return reg


TXT = "ab cd"


def fake_match_regex(txt, regexes):
    return [_frm(100, 0, 2, "ab"), _frm(101, 3, 5, "cd"), _frm(100, 3, 5, "cd")]


class SF:
    """score wrapper: arithmetic/compare delegate to the (symbolic) value, formatting is inert"""
    __slots__ = ("v",)

    def __init__(self, v):
        self.v = v

    def _o(self, o):
        return o.v if isinstance(o, SF) else o

    def __lt__(self, o):
        return self.v < self._o(o)

    def __gt__(self, o):
        return self.v > self._o(o)

    def __le__(self, o):
        return self.v <= self._o(o)

    def __ge__(self, o):
        return self.v >= self._o(o)

    def __eq__(self, o):
        return self.v == self._o(o)

    def __hash__(self):
        return 0

    def __sub__(self, o):
        return SF(self.v - self._o(o))

    def __add__(self, o):
        return SF(self.v + self._o(o))

    def __format__(self, spec):
        return "?"

    def __repr__(self):
        return "SF"


class SymScorer(Scorer):
    def __init__(self, vals):
        self.vals = vals
        self.i = 0

    def _n(self):
        # the symbolic values are reused cyclically, so later scorings (incl. the final scores that
        # decide re-emission) vary as well
        v = self.vals[self.i % len(self.vals)] if self.vals else 0
        self.i += 1
        return SF(v)

    def score(self, txt, ts, pp):
        return self._n()

    def score_final(self, txt, ts, pp, prod):
        return self._n()


STABLE = [True]


def stream(vals, depth=0, rml=1.0, timeout=0):
    old = (C._match_regex, PP.global_rules)
    C._match_regex = fake_match_regex
    PP.global_rules = mk_rules()
    try:
        held, snaps = [], []
        for p in C._ctparse(TXT, TS, timeout, rml, depth, SymScorer(vals)):
            held.append(p)
            snaps.append((p.resolution.v, p.production, p.score, (p.resolution.mstart, p.resolution.mend)))
        # a candidate does not change after it has been yielded
        after = [(p.resolution.v, p.production, p.score, (p.resolution.mstart, p.resolution.mend)) for p in held]
        STABLE[0] = all(a[0] == b[0] and a[1] == b[1] and a[3] == b[3] and a[2] is b[2] for a, b in zip(snaps, after)) and len({id(p) for p in held}) == len(held)
        return snaps
    finally:
        C._match_regex, PP.global_rules = old


# reference sets, computed by an own closure over the toy rules (not by the code under test)
def _closure():
    reg = mk_rules()
    seqs0 = [(("R", 100), ("R", 101)), (("R", 100), ("R", 100))]   # the two gap-free maximal sequences
    derivable, reduced = set(), set()
    seen = set()
    todo = list(seqs0)
    while todo:
        s = todo.pop()
        if s in seen:
            continue
        seen.add(s)
        succ = []
        for i in range(len(s)):
            # unary rules on regex
            if s[i] == ("R", 100):
                succ.append(s[:i] + (("A", 1),) + s[i + 1:])
            if s[i] == ("R", 101):
                succ.append(s[:i] + (("A", 2),) + s[i + 1:])
                succ.append(s[:i] + (("A", 1),) + s[i + 1:])
            if s[i][0] == "A" and s[i][1] < 5:
                succ.append(s[:i] + (("A", s[i][1] + 5),) + s[i + 1:])
            if i + 1 < len(s) and s[i][0] == "A" and s[i + 1][0] == "A" and s[i][1] < 10 and s[i + 1][1] < 10:
                succ.append(s[:i] + (("A", s[i][1] * 10 + s[i + 1][1]),) + s[i + 2:])
        for x in s:
            if x[0] == "A":
                derivable.add(x[1])
        if not succ:
            for x in s:
                if x[0] == "A":
                    reduced.add(x[1])
        todo += succ
    return derivable, reduced


DERIVABLE, REDUCED = _closure()


def _replay_ok(production, value):
    """TRACE: the production tuple (initial pattern ids, then rule names in order) replays to a
    sequence containing `value`, applying each rule at some position"""
    ids = [p for p in production if isinstance(p, int)]
    names = [p for p in production if isinstance(p, str)]
    start = tuple(("R", i) for i in ids)
    cur = {start}
    for nm in names:
        nxt = set()
        for s in cur:
            for i in range(len(s)):
                if nm == "r1" and s[i] == ("R", 100):
                    nxt.add(s[:i] + (("A", 1),) + s[i + 1:])
                if nm == "r2" and s[i] == ("R", 101):
                    nxt.add(s[:i] + (("A", 2),) + s[i + 1:])
                if nm == "r2b" and s[i] == ("R", 101):
                    nxt.add(s[:i] + (("A", 1),) + s[i + 1:])
                if nm == "r4" and s[i][0] == "A" and s[i][1] < 5:
                    nxt.add(s[:i] + (("A", s[i][1] + 5),) + s[i + 1:])
                if nm == "r3" and i + 1 < len(s) and s[i][0] == "A" and s[i + 1][0] == "A" and s[i][1] < 10 and s[i + 1][1] < 10:
                    nxt.add(s[:i] + (("A", s[i][1] * 10 + s[i + 1][1]),) + s[i + 2:])
        cur = nxt
    return any(("A", value) in s for s in cur)


def ob_stream(v0: int, v1: int, v2: int, v3: int, v4: int, v5: int) -> bool:
    """
    pre: 0 <= v0 <= SMAX and 0 <= v1 <= SMAX and 0 <= v2 <= SMAX and 0 <= v3 <= SMAX and 0 <= v4 <= SMAX and 0 <= v5 <= SMAX
    post: _
    """
    vals = [v0, v1, v2, v3, v4, v5][:NSYM]
    out = stream(vals, DEPTH)
    if not STABLE[0]:
        return False
    got = {o[0] for o in out}
    if not got <= DERIVABLE:
        return False
    if DEPTH == 0 and not REDUCED <= got:
        return False
    for v, production, score, span in out:
        if not _replay_ok(production, v):
            return False
        if not (0 <= span[0] < span[1] <= len(TXT)):
            return False
    # DEDUP: a value is streamed again only with a strictly higher score
    last = {}
    for v, production, score, span in out:
        if v in last and not (last[v] < score):
            return False
        last[v] = score
    return True


def ob_cover(ti: int, half: bool) -> bool:
    """
    pre: 0 <= ti <= 2
    post: _
    """
    texts = ["ab cd ef", "ab cd.ef", "ab.cd ef"]
    txt = texts[ti]

    def fm(txt_, regexes):
        return [_frm(100, 0, 2, "ab"), _frm(101, 3, 5, "cd"), _frm(100, 6, 8, "ef")]
    old = (C._match_regex, PP.global_rules)
    C._match_regex = fm
    PP.global_rules = mk_rules()
    try:
        out = list(C._ctparse(txt, TS, 0, 0.5 if half else 1.0, 0, SymScorer([])))
    finally:
        C._match_regex, PP.global_rules = old
    # gap-free maximal sequences and their coverage, by the text
    seqs = {"ab cd ef": [(0, 8)], "ab cd.ef": [(0, 5), (6, 8)], "ab.cd ef": [(0, 2), (3, 8)]}[txt]
    best = max(b - a for a, b in seqs)
    lim = best * (0.5 if half else 1.0)
    allowed = [(a, b) for a, b in seqs if b - a >= lim]
    for p in out:
        r = p.resolution
        if not any(a <= r.mstart and r.mend <= b for a, b in allowed):
            return False
    return len(out) > 0


# ------------------------------------------------------------------ SELECT (C14)

def ob_select(n: int, s0: float, s1: float, s2: float, s3: float, none_stream: bool) -> bool:
    """
    pre: 0 <= n <= 4
    pre: -1e6 <= s0 <= 1e6 and -1e6 <= s1 <= 1e6 and -1e6 <= s2 <= 1e6 and -1e6 <= s3 <= 1e6
    post: _
    """
    scores = [s0, s1, s2, s3][:n]
    cands = [C.CTParse(Time(hour=i), (100 + i, "r"), s, "subj%d" % i, ["l%d" % i]) for i, s in enumerate(scores)]
    for i, c in enumerate(cands):
        c.resolution.mstart, c.resolution.mend = 0, 1 + (i * 3) % 4      # candidates of different span lengths
    stream_ = [None] if (none_stream and n == 0) else cands
    old = C.ctparse_gen
    C.ctparse_gen = lambda *a, **k: iter(stream_)
    try:
        r = C.ctparse("x y", timeout=0)
    finally:
        C.ctparse_gen = old
    if n == 0:
        return r is not None and r.resolution is None
    return any(r is c for c in cands) and all(r.score >= s for s in scores)


# ------------------------------------------------------------------ INTERLEAVE (C12)

def _gen(vals):
    return C._ctparse(TXT, TS, 0, 1.0, 0, SymScorer(vals))


def _solo(vals):
    old = (C._match_regex, PP.global_rules)
    C._match_regex = fake_match_regex
    PP.global_rules = mk_rules()
    try:
        return [(p.resolution.v, p.production) for p in _gen(vals)]
    finally:
        C._match_regex, PP.global_rules = old


SA = _solo([0, 0, 1])
SB = _solo([1, 0, 0])


def _pickb(x):
    from crosshair.tracers import ResumedTracing
    with ResumedTracing():
        return True if x else False


def ob_interleave(s0: bool, s1: bool, s2: bool, s3: bool, s4: bool, s5: bool, s6: bool, s7: bool, abandon: bool) -> bool:
    """
    post: _
    """
    # the schedule only steers the harness: the two generators of the real _ctparse run untraced
    with NoTracing():
        sched = [_pickb(s) for s in (s0, s1, s2, s3, s4, s5, s6, s7)]
        ab = _pickb(abandon)
        return _interleave(sched, ab)


def _interleave(sched, abandon):
    old = (C._match_regex, PP.global_rules)
    C._match_regex = fake_match_regex
    PP.global_rules = mk_rules()
    try:
        ga, gb = _gen([0, 0, 1]), _gen([1, 0, 0])
        oa, ob = [], []
        da = db = False
        for s in sched:
            if s and not da:
                try:
                    p = next(ga)
                    oa.append((p.resolution.v, p.production))
                except StopIteration:
                    da = True
            elif not db:
                try:
                    p = next(gb)
                    ob.append((p.resolution.v, p.production))
                except StopIteration:
                    db = True
        if abandon:
            gb.close()          # an abandoned candidate stream
        else:
            for p in gb:
                ob.append((p.resolution.v, p.production))
        for p in ga:
            oa.append((p.resolution.v, p.production))
        after = [(p.resolution.v, p.production) for p in _gen([0, 0, 1])]
    finally:
        C._match_regex, PP.global_rules = old
    return oa == SA and (abandon or ob == SB) and ob == SB[:len(ob)] and after == SA


# ------------------------------------------------------------------ SPAN-TRIM (C09)

class _SpanM:
    def __init__(self, a, text):
        self.a, self.text = a, text

    def span(self, key):
        return (self.a, self.a + len(self.text))

    def group(self, key):
        return self.text


TRIM_TEXTS = ["ab", "ab ", "ab  ", "a b ", "a", "8 h ", "wed\t", "x  "]


def ob_span_trim(a: int, ti: int) -> bool:
    """
    pre: 0 <= a <= 50 and 0 <= ti < 8
    post: _
    """
    text = TRIM_TEXTS[ti]
    m = RegexMatch(123, _SpanM(a, text))
    core = text.rstrip()
    # the span starts where the match starts and ends with the last non-blank character
    return m.mstart == a and m.mend == a + len(core) and m.mend > m.mstart and not text[m.mend - a - 1].isspace()


# ------------------------------------------------------------------ PREFILTER history (C15 / C12)

def ob_filter_hist(a0: int, a1: int, a2: int, b0: int, b1: int, b2: int) -> bool:
    """
    pre: 0 <= a0 <= 1 and 0 <= a1 <= 1 and 0 <= a2 <= 1 and 0 <= b0 <= 1 and 0 <= b1 <= 1 and 0 <= b2 <= 1
    post: _
    """
    # two initial sequences analysed one after the other (same ids possibly in another order):
    # the applicable rules of the second are what a fresh analysis of it gives
    reg = mk_rules()
    reg["r5"] = (reg["r3"][0], [RU.regex_match(100), RU.dimension(A), RU.regex_match(101)])
    reg["r6"] = (reg["r3"][0], [RU.regex_match(101), RU.dimension(A)])
    old = PP.global_rules
    PP.global_rules = reg
    try:
        s1 = tuple(_frm(100 + v, 2 * i, 2 * i + 1) for i, v in enumerate((a0, a1, a2)))
        s2 = tuple(_frm(100 + v, 2 * i, 2 * i + 1) for i, v in enumerate((b0, b1, b2)))
        PP.PartialParse.from_regex_matches(s1)
        pp2 = PP.PartialParse.from_regex_matches(s2)
        fresh = PP.PartialParse(s2, tuple(m.id for m in s2))._filter_rules(reg)
        need = {name for name, (w, pats) in reg.items()
                if _embeddable([m.id - 100 for m in s2], [p.__closure__[0].cell_contents - 100 if p.__name__ == "_regex_match" else None for p in pats])}
    finally:
        PP.global_rules = old
    return set(pp2.applicable_rules) == set(fresh) and need <= set(pp2.applicable_rules)


def dom_filter_hist():
    return itertools.product((0, 1), repeat=6)
