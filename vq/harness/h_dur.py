"""C08 — durations keep amount and unit; 'X for N units' ends exactly N units later."""
import os
from datetime import datetime
from typing import Optional

from vq.harness.common import REG, Time, Interval, Duration, DurationUnit, CELL_Y, CELL_M
from vq.spec.cal import mdays, days_from_civil, add_months
from vq.spec.wf import key_time
from vq import wfgen as W
from vq.harness import lift as L

TS = datetime(2020, 1, 1)
MDC = mdays(CELL_Y, CELL_M)
UNITS = W.UNITS                       # MINUTES, HOURS, DAYS, NIGHTS, WEEKS, MONTHS (enum order)
UNAMES = [u.value for u in UNITS]
MAXN = int(os.environ.get("VQ_MAXN", "40"))
UNIT = int(os.environ.get("VQ_UNIT", "2"))
F = W.StubMatch({}, 4, 7)             # the "for / für" match


def w(name):
    return REG[name][0]


def ob_digit(n: int, ui: int) -> bool:
    """
    pre: 0 <= n <= 10 ** 9 and 0 <= ui < 6
    post: _
    """
    W.install_int_stub()
    m = W.StubMatch({"num": W.Num(n), "d_" + UNAMES[ui]: "x"})
    r = w("ruleDigitDuration")(TS, m)
    return r is not None and type(r) is Duration and r.value == n and r.unit is UNITS[ui]


def lift_digit(n, ui):
    W.install_int_stub()
    m = W.StubMatch({"num": W.Num(n), "d_" + UNAMES[ui]: "x"})
    return L.contract("ruleDigitDuration", [("rm", 137)], [m], TS, ("D", n, UNITS[ui]))


def ob_named(k: int, ui: int) -> bool:
    """
    pre: 1 <= k <= 31 and 0 <= ui < 6
    post: _
    """
    m = W.StubMatch({"n_%d" % k: "x", "d_" + UNAMES[ui]: "x"})
    r = w("ruleNamedNumberDuration")(TS, m)
    return r is not None and type(r) is Duration and r.value == k and r.unit is UNITS[ui]


def lift_named(k, ui):
    m = W.StubMatch({"n_%d" % k: "x", "d_" + UNAMES[ui]: "x"})
    return L.contract("ruleNamedNumberDuration", [("rm", 138)], [m], TS, ("D", k, UNITS[ui]))


def ob_half(ui: int) -> bool:
    """
    pre: 0 <= ui < 6
    post: _
    """
    m = W.StubMatch({"d_" + UNAMES[ui]: "x"})
    r = w("ruleDurationHalf")(TS, m)
    if UNITS[ui] is DurationUnit.HOURS:
        return r is not None and (r.value, r.unit) == (30, DurationUnit.MINUTES)
    if UNITS[ui] is DurationUnit.DAYS:
        return r is not None and (r.value, r.unit) == (12, DurationUnit.HOURS)
    return r is None


def lift_half(ui):
    m = W.StubMatch({"d_" + UNAMES[ui]: "x"})
    exp = ("D", 30, DurationUnit.MINUTES) if UNITS[ui] is DurationUnit.HOURS else ("D", 12, DurationUnit.HOURS) if UNITS[ui] is DurationUnit.DAYS else None
    return L.contract("ruleDurationHalf", [("rm", 139)], [m], TS, exp)


def _end_ok(r, d, h, mi, n) -> bool:
    """end = start + n units by independent calendar arithmetic (relation on day numbers)"""
    if r is None or r.t_from is None or r.t_to is None:
        return False
    e = r.t_to
    u = UNITS[UNIT]
    start_day = days_from_civil(CELL_Y, CELL_M, d)
    if u in (DurationUnit.DAYS, DurationUnit.NIGHTS, DurationUnit.WEEKS):
        nd = n * 7 if u is DurationUnit.WEEKS else n
        return (e.hour, e.minute, e.DOW, e.POD) == (None, None, None, None) and e.year is not None \
            and 1 <= e.month <= 12 and 1 <= e.day <= mdays(e.year, e.month) \
            and days_from_civil(e.year, e.month, e.day) == start_day + nd
    if u is DurationUnit.MONTHS:
        y2, m2, d2 = add_months(CELL_Y, CELL_M, d, n)
        return key_time(e) == (y2, m2, d2, None, None, None, None)
    total = (h or 0) * 60 + (mi or 0) + (n * 60 if u is DurationUnit.HOURS else n)
    return e.year is not None and 1 <= e.month <= 12 and 1 <= e.day <= mdays(e.year, e.month) \
        and (e.DOW, e.POD) == (None, None) and e.hour is not None and e.minute is not None \
        and (days_from_civil(e.year, e.month, e.day) - start_day) * 1440 + e.hour * 60 + e.minute == total


def ob_timeduration(d: int, h: Optional[int], mi: Optional[int], n: int) -> bool:
    """
    pre: 1 <= d <= MDC and 0 <= n <= MAXN
    pre: (h is None or 0 <= h <= 23) and (mi is None or (h is not None and 0 <= mi <= 59))
    post: _
    """
    t = Time(year=CELL_Y, month=CELL_M, day=d, hour=h, minute=mi)
    r = w("ruleTimeDuration")(TS, t, F, Duration(n, UNITS[UNIT]))
    return _end_ok(r, d, h, mi, n) and key_time(r.t_from) == (CELL_Y, CELL_M, d, h, mi, None, None)


def lift_timeduration(d, h, mi, n):
    t = Time(year=CELL_Y, month=CELL_M, day=d, hour=h, minute=mi)
    dur = Duration(n, UNITS[UNIT])

    def post(expected, streamed):
        # effect: a streamed interval starting at t whose end is not start + n units
        for s in streamed:
            if s and s[0] == "I" and s[1] == L.val(t) and s[2] is not None:
                e = Time(*s[2][1:8])
                if not _end_ok(Interval(t, e), d, h, mi, n):
                    return True
        return False
    return L.contract("ruleTimeDuration", [("art", None), ("rm", 140), ("art", None)], [t, F, dur], TS, ("unspecified",), post=post)


def ob_durationinterval(n: int, ui: int, d1: int, m2: int, d2: int, which: int) -> bool:
    """
    pre: 0 <= n <= 400 and 2 <= ui <= 3 and 1 <= d1 <= MDC and 1 <= m2 <= 12 and 1 <= d2 <= mdays(CELL_Y, m2) and 0 <= which <= 2
    pre: (CELL_M, d1) < (m2, d2)
    post: _
    """
    a, b = Time(year=CELL_Y, month=CELL_M, day=d1), Time(year=CELL_Y, month=m2, day=d2)
    iv = Interval(a, b)
    dur = Duration(n, UNITS[ui])
    if which == 0:
        r = w("ruleDurationInterval")(TS, dur, iv)
    elif which == 1:
        r = w("ruleIntervalDuration")(TS, iv, dur)
    else:
        r = w("ruleIntervalConjDuration")(TS, iv, F, dur)
    length = days_from_civil(CELL_Y, m2, d2) - days_from_civil(CELL_Y, CELL_M, d1)
    if length == n:
        return r is not None and key_time(r.t_from) == key_time(a) and key_time(r.t_to) == key_time(b)
    return r is None


def lift_durationinterval(n, ui, d1, m2, d2, which):
    a, b = Time(year=CELL_Y, month=CELL_M, day=d1), Time(year=CELL_Y, month=m2, day=d2)
    iv = Interval(a, b)
    dur = Duration(n, UNITS[ui])
    length = days_from_civil(CELL_Y, m2, d2) - days_from_civil(CELL_Y, CELL_M, d1)
    exp = ("I", L.val(a), L.val(b)) if length == n else None
    if which == 0:
        return L.contract("ruleDurationInterval", [("art", None), ("art", None)], [dur, iv], TS, exp,
                          post=(lambda e, st: True) if exp is None else None)
    if which == 1:
        return L.contract("ruleIntervalDuration", [("art", None), ("art", None)], [iv, dur], TS, exp,
                          post=(lambda e, st: True) if exp is None else None)
    return L.contract("ruleIntervalConjDuration", [("art", None), ("rm", 140), ("art", None)], [iv, F, dur], TS, exp,
                      post=(lambda e, st: True) if exp is None else None)
