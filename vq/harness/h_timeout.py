"""C13 — timeout honoured: the real parser with the real rule base on a concrete text; the
clock is a stub whose k-th read jumps past the deadline, k symbolic (every expiry point between
two consecutive clock reads).

Only the decision "is this the k-th read?" is traced by CrossHair; the parser itself runs
untraced (NoTracing) at native speed — nothing in it depends on a symbolic value, the symbolic
index only steers the stub clock.  Each path is therefore one concrete run of the real code with
the deadline falling at one particular read; the solver enumerates and covers all k in the
stated range (Confirmed over all paths).
"""
import os
import sys
from datetime import datetime

import ctparse.ctparse  # noqa
from ctparse.rule import rules as REG
from ctparse.scorer import DummyScorer
from crosshair.tracers import NoTracing, ResumedTracing

C = sys.modules["ctparse.ctparse"]
T = sys.modules["ctparse.timers"]
TS = datetime(2020, 1, 1, 7, 0)
TEXT = os.environ.get("VQ_TEXT", "tomorrow 8pm")
K_LO = int(os.environ.get("VQ_KLO", "0"))
K_HI = int(os.environ.get("VQ_KHI", "1000000"))
NTOK = len(TEXT.split())
# work allowed between two consecutive deadline checks: linear in the number of tokens (one
# sequence analysis or one stack-element expansion), never in the number of candidate sequences
W_RULE = NTOK + 2
W_SCORE = 2 * NTOK + 1
PP = sys.modules["ctparse.partial_parse"]


class CountingScorer(DummyScorer):
    def __init__(self):
        self.n = 0

    def score(self, *a):
        self.n += 1
        return 0.0

    def score_final(self, *a):
        self.n += 1
        return 0.0


def run(k, use_ctparse=False):
    """one run of the real parser; the k-th clock read (0-based; read 0 is the start time) and all
    later ones return a time past the deadline.  k may be symbolic: it is only compared inside
    the stub clock."""
    st = {"reads": 0, "late_at": None, "work": 0, "after": 0, "maxw": 0, "maxs": 0, "lastw": 0, "lasts": 0,
          "checks": 0, "units": set(), "maxunits": 0}
    sc = CountingScorer()
    orig = dict(REG)

    def mk(w):
        def f(ts, *a):
            st["work"] += 1
            if st["late_at"] is not None:
                st["after"] += 1
            return w(ts, *a)
        return f

    def fake():
        i = st["reads"]
        st["reads"] += 1
        st["maxw"] = max(st["maxw"], st["work"] - st["lastw"])
        st["maxs"] = max(st["maxs"], sc.n - st["lasts"])
        st["lastw"], st["lasts"] = st["work"], sc.n
        with ResumedTracing():
            late = bool(i >= k) and i > 0
        if late:
            if st["late_at"] is None:
                st["late_at"] = (i, st["work"], sc.n)
            return 100.0
        return 0.0
    for name, (w, p) in orig.items():
        REG[name] = (mk(w), p)
    # deadline checks proper (calls of the closure made by timers.timeout) and the units of work
    # between two of them: analysed candidate sequences / expanded partial parses, by identity
    old_timeout, old_apply, old_from = C.timeout_, PP.PartialParse.apply_rule, PP.PartialParse.from_regex_matches

    def timeout_wrap(t):
        inner = old_timeout(t)

        def checked():
            st["checks"] += 1
            st["maxunits"] = max(st["maxunits"], len(st["units"]))
            st["units"] = set()
            return inner()
        return checked

    def apply_wrap(self, *a, **k):
        st["units"].add(("pp", id(self)))
        return old_apply(self, *a, **k)

    def from_wrap(regex_matches):
        st["units"].add(("seq", id(regex_matches)))
        return old_from.__func__(PP.PartialParse, regex_matches)
    C.timeout_ = timeout_wrap
    PP.PartialParse.apply_rule = apply_wrap
    PP.PartialParse.from_regex_matches = staticmethod(from_wrap)
    _sf = sc.score_final

    def sf_wrap(txt, ts, pp, prod):
        st["units"].add(("pp", id(pp)))
        return _sf(txt, ts, pp, prod)
    sc.score_final = sf_wrap
    old = T.perf_counter
    T.perf_counter = fake
    exc = None
    out = []
    res = None
    try:
        try:
            if use_ctparse:
                res = C.ctparse(TEXT, ts=TS, timeout=1.0, scorer=sc, max_stack_depth=0)
            else:
                for p in C.ctparse_gen(TEXT, ts=TS, timeout=1.0, scorer=sc, max_stack_depth=0):
                    out.append((repr(p.resolution), p.production, p.score))
        except Exception as e:      # noqa
            exc = "%s: %s" % (type(e).__name__, e)
    finally:
        T.perf_counter = old
        C.timeout_ = old_timeout
        PP.PartialParse.apply_rule = old_apply
        PP.PartialParse.from_regex_matches = old_from
        for name in orig:
            REG[name] = orig[name]
    st["maxunits"] = max(st["maxunits"], len(st["units"]))
    st["scored"] = sc.n
    return out, res, exc, st


with NoTracing():
    pass
FULL, _, _, FULL_ST = run(10 ** 9)
NREADS = FULL_ST["reads"]


def check(k):
    out, _, exc, st = run(k)
    if exc is not None:
        return False, "raised " + exc
    if out != FULL[:len(out)]:
        return False, "not a prefix of the run without timeout"
    if st["late_at"] is not None:
        # stops at the first check after the deadline: a late read inside timeit (which only
        # measures) may be followed by the rest of that one step, never by a further clock-checked step
        i, w0, s0 = st["late_at"]
        if st["work"] - w0 > W_RULE or st["scored"] - s0 > W_SCORE:
            return False, "work continued after the deadline: %d rule calls, %d scorings after read %d" % (st["work"] - w0, st["scored"] - s0, i)
    if st["maxunits"] > 1:
        return False, "between two deadline checks %d candidate sequences / partial parses were processed (at most one allowed)" % st["maxunits"]
    if st["maxw"] > W_RULE or st["maxs"] > W_SCORE:
        return False, "work between two deadline checks exceeds the linear bound: %d rule calls / %d scorings (allowed %d / %d)" % (st["maxw"], st["maxs"], W_RULE, W_SCORE)
    _, res, exc2, _ = run(k, use_ctparse=True)
    if exc2 is not None or res is None:
        return False, "ctparse raised / returned None: %s" % exc2
    if out:
        best = max(s for _, _, s in out)
        if res.resolution is None or res.score != best or (repr(res.resolution), res.production, res.score) not in out:
            return False, "ctparse did not return the best of the prefix"
    elif res.resolution is not None:
        return False, "resolution although nothing was produced"
    return True, ""


def ob_expiry(k: int) -> bool:
    """
    pre: K_LO <= k <= K_HI and 0 <= k <= NREADS + 1
    post: _
    """
    with NoTracing():
        ok, why = check(k)
    return ok


def why_expiry(k):
    return check(k)[1]


def ob_timer(tm: int, st: int, e1: int, e2: int) -> bool:
    """
    pre: 0 <= tm <= 10 ** 6 and 0 <= st <= 10 ** 9 and 0 <= e1 <= 2 * 10 ** 6 and 0 <= e2 <= 2 * 10 ** 6
    post: _
    """
    # clock values in integer ticks (exact arithmetic; float rounding of a real clock is outside the claim)
    timeout, start, d1, d2 = tm, st, e1, e2
    vals = [start, start + d1, start + d1 + d2]
    it = iter(vals)
    old = T.perf_counter
    T.perf_counter = lambda: next(it)
    try:
        tt = T.timeout(timeout)
        r = []
        for now in vals[1:]:
            try:
                tt()
                r.append(False)
            except T.CTParseTimeoutError:
                r.append(True)
    finally:
        T.perf_counter = old
    x1 = tm != 0 and e1 > tm
    x2 = tm != 0 and (e1 + e2) > tm
    return r == [x1, x2]
