"""WF-BASE / WF-STEP / FRAME — one generic harness, specialised by the environment.

VQ_SPEC (JSON, produced by vq.wfgen on every run from the live registry):
  {"rule": name, "args": [["rm", regex id] | ["art", shape key], ...], "allowed": [shape keys],
   "years": [..] (optional: admitted years of date arguments), "maxdur": N}

The *registered wrapper* of the rule (real body + real span update) is executed on arguments
whose every present field is a symbolic integer inside the invariant WF; parts of day are drawn
by symbolic index from the live table; regex matches are group stubs (presence pattern by
symbolic index, numeric groups symbolic inside the ranges of the pattern's own language).

post:  no exception  and  (result is None or WF(result))  and  shape(result) in ALLOWED
       and  FRAME (every argument, incl. its span, is unchanged)  and  result span = hull of args
"""
import json
import os
from datetime import datetime

from vq.harness.common import REG, Time, Interval, Duration, DurationUnit, pod_hours, CELL_Y, CELL_M
from vq.spec.cal import mdays
from vq.spec.wf import wf_time, key_time, dt_key
from vq import wfgen as W


SPEC = json.loads(os.environ.get("VQ_SPEC", "null")) or {
    "rule": "ruleDateTOD", "args": [["art", "T:year,month,day"], ["art", "T:hour,minute"]],
    "allowed": ["T:year,month,day,hour,minute"]}
RULE = SPEC["rule"]


def _acc(ts, a):
    """WF-ACC: the accessors of a well-formed value never raise"""
    a.start
    a.end
    for e in ([a] if isinstance(a, Time) else [a.t_from, a.t_to]):
        if e is not None and e.year is not None and e.month is not None and e.day is not None:
            e.dt
    return None


def _latent(ts, a):
    """LATENT-WF: post-processing maps WF to WF and keeps the span"""
    from vq.harness.common import PL
    r = PL.apply_postprocessing_rules(ts, a)
    if r is a:
        return None
    return r


WRAPPER = {"@acc": _acc, "@latent": _latent}[RULE] if RULE.startswith("@") else REG[RULE][0]
ALLOWED = set(SPEC["allowed"])
YEARS = SPEC.get("years")          # None -> whole WF range
MAXDUR = SPEC.get("maxdur", 10 ** 4)
CLAUSES = set(SPEC.get("clauses") or ["exc", "wf", "closure", "span", "frame"])
TEXTCAP = SPEC.get("textcap")
TEXTGROUPS = set(SPEC.get("text_groups") or [])   # groups whose text (not just presence) the rule inspects
YM = SPEC.get("ym")                # optional [[y, m], ...]: admitted (year, month) of fully dated arguments
PODSEL = SPEC.get("pods")          # None -> every key of the live table (by index)
PODS = W.PODS
PODSET = set(pod_hours)
UNITS = W.UNITS
MDC = mdays(CELL_Y, CELL_M)
NPARAM = 24

# ---------------------------------------------------------------- parameter layout
LAYOUT = []      # per argument: builder description
RANGES = []      # per parameter: list of [lo, hi]


def _alloc(ranges):
    RANGES.append(ranges)
    return len(RANGES) - 1


def _time_layout(fields, top):
    slots = {}
    for f in fields:
        if f == "year" and YM and "month" in fields:
            r = [[y, y] for y in sorted({c[0] for c in YM})]
        elif f == "month" and YM and "year" in fields:
            r = [[m, m] for m in sorted({c[1] for c in YM})]
        elif f == "year":
            if YEARS:
                r = [[y, y] for y in YEARS]
            else:
                r = W.DOM_TOP["year"] if top else [[1, 9999]]
        elif f == "POD" and PODSEL is not None:
            r = [[i, i] for i in PODSEL]
        else:
            r = W.DOM_TOP[f]
        slots[f] = _alloc(r)
    return slots


for kind, payload in SPEC["args"]:
    if kind == "rm":
        info = W.pattern_info(payload)
        if SPEC.get("prescap") and len(info["pres"]) > SPEC["prescap"]:
            info = dict(info)
            step = -(-len(info["pres"]) // SPEC["prescap"])
            info["pres"] = info["pres"][::step]         # quick tier: every step-th presence pattern
        if TEXTCAP:
            info = dict(info)
            info["texts"] = {g: (t if len(t) <= TEXTCAP else t[:TEXTCAP - 2] + t[-2:]) for g, t in info["texts"].items()}
        ent = {"k": "rm", "info": info, "pres": _alloc([[0, len(info["pres"]) - 1]]), "num": {}, "txt": {}}
        for g, rs in sorted(info["num"].items()):
            ent["num"][g] = _alloc([list(r) for r in rs])
        for g, ts_ in sorted(info["texts"].items()):
            if len(ts_) > 1 and g in TEXTGROUPS:
                ent["txt"][g] = _alloc([[0, len(ts_) - 1]])
        LAYOUT.append(ent)
    else:
        s = W.parse_skey(payload)
        if s[0] == "T":
            LAYOUT.append({"k": "T", "slots": _time_layout(s[1], True)})
        elif s[0] == "I":
            LAYOUT.append({"k": "I",
                           "a": None if s[1] is None else _time_layout(s[1][1], False),
                           "b": None if s[2] is None else _time_layout(s[2][1], False)})
        else:
            LAYOUT.append({"k": "D", "v": _alloc([[0, MAXDUR]]),
                           "u": _alloc([[u, u] for u in SPEC["units"]] if SPEC.get("units") else [[0, len(UNITS) - 1]])})
# reference time: first or last day of the cell month (concrete on each path), any time of day
TS_DAYS = [1] if SPEC.get("ts_days") == "first" else [1, MDC]
TS_SLOTS = [_alloc([[0, len(TS_DAYS) - 1]]), _alloc([[0, 23]]), _alloc([[0, 59]]), _alloc([[0, 59]])]


def _ts(p):
    di = p[TS_SLOTS[0]]
    d = TS_DAYS[0]
    for k in range(len(TS_DAYS)):
        if di == k:
            d = TS_DAYS[k]
    return datetime(CELL_Y, CELL_M, d, p[TS_SLOTS[1]], p[TS_SLOTS[2]], p[TS_SLOTS[3]])
NP = len(RANGES)
HAS_STUB = any(k == "rm" for k, _ in SPEC["args"])
if HAS_STUB and not RULE.startswith("@"):
    assert not W.uses_int_as_type(REG[RULE][0].__closure__[0].cell_contents), "rule uses `int` as a type: the group stub would change its behaviour"
assert NP <= NPARAM, "too many parameters: %d" % NP


def _mk_time(slots, p):
    kw = {}
    for f, i in slots.items():
        kw[f] = PODS[p[i]] if f == "POD" else p[i]
    return Time(**kw)


def build_args(p):
    args = []
    pos = 5            # spans start at a non-zero offset (start, end and length all differ)
    for ent in LAYOUT:
        if ent["k"] == "rm":
            info = ent["info"]
            pres = info["pres"][p[ent["pres"]]]
            d = {}
            for g in pres:
                if g in ent["num"]:
                    d[g] = W.Num(p[ent["num"][g]])
                elif g in ent["txt"]:
                    d[g] = info["texts"][g][p[ent["txt"][g]]]
                else:
                    d[g] = info["texts"][g][0]
            a = W.StubMatch(d)
        elif ent["k"] == "T":
            a = _mk_time(ent["slots"], p)
        elif ent["k"] == "I":
            a = Interval(None if ent["a"] is None else _mk_time(ent["a"], p),
                         None if ent["b"] is None else _mk_time(ent["b"], p))
        else:
            a = Duration(p[ent["v"]], UNITS[p[ent["u"]]])
        a.mstart, a.mend = pos, pos + 3      # concrete, disjoint, increasing spans
        pos += 4
        args.append(a)
    return args


def wf_any(a, top=True) -> bool:
    if a is None:
        return True
    if isinstance(a, Time):
        if not wf_time(a, PODSET):
            return False
        if not top and a.year is not None:
            return 1 <= a.year <= 9999
        return True
    if isinstance(a, Interval):
        if a.t_from is None and a.t_to is None:
            return False
        for e in (a.t_from, a.t_to):
            if e is not None:
                if e.year is not None and not (1 <= e.year <= 9999):
                    return False
                y = e.year
                e2 = Time(year=None, month=e.month, day=e.day, hour=e.hour, minute=e.minute, DOW=e.DOW, POD=e.POD)
                if not wf_time(e2, PODSET):
                    return False
                if y is not None and e.month is not None and e.day is not None and e.day > mdays(y, e.month):
                    return False
        f, t = a.t_from, a.t_to
        if f is not None and t is not None and f.isTOD and t.isTOD:
            # what ruleTODTOD establishes ("9-5" is read as 9-17) and rulePODInterval preserves
            if f.hour > t.hour and f.hour <= 12 and t.hour <= 12:
                return False
        if f is not None and t is not None and f.hasDate and t.hasDate:
            # fully dated start is not after the end (by the start accessor's instants)
            return _start_key(f) <= _end_key(t)
        return True
    if isinstance(a, Duration):
        return isinstance(a.unit, DurationUnit) and a.value >= 0
    return False


def _start_key(t):
    h = t.hour
    if h is None and t.POD is not None:
        h = pod_hours[t.POD][0]
    return (t.year, t.month, t.day, h or 0, t.minute or 0)


def _end_key(t):
    """instant of the `.end` accessor: last minute of the part of day / hour / day"""
    if t.hour is None and t.POD is not None:
        h = pod_hours[t.POD][1]
    else:
        h = t.hour if t.hour is not None else 23
    return (t.year, t.month, t.day, h, t.minute if t.minute is not None else 59)


def snap(a):
    if a is None:
        return None
    if isinstance(a, Time):
        return ("T", key_time(a), a.mstart, a.mend)
    if isinstance(a, Interval):
        return ("I", snap(a.t_from), snap(a.t_to), a.mstart, a.mend)
    if isinstance(a, Duration):
        return ("D", a.value, a.unit, a.mstart, a.mend)
    # (no repr(): rendering a symbolic integer is expensive and not the subject)
    return ("M", a.mstart, a.mend, tuple((k, v.v if isinstance(v, W.Num) else v) for k, v in sorted(a.match.g.items())))


def in_dom(p) -> bool:
    for i in range(NPARAM):
        if i < NP:
            ok = False
            for lo, hi in RANGES[i]:
                if lo <= p[i] <= hi:
                    ok = True
                    break
            if not ok:
                return False
        elif p[i] != 0:
            return False
    return True


def pre_ok(p) -> bool:
    if not in_dom(p):
        return False
    for a in build_args(p):
        if not isinstance(a, W.StubMatch) and not wf_any(a):
            return False
    return True


def run_step(p):
    """-> (ok, why) ; why names the failing clause"""
    args = build_args(p)
    ts = _ts(p)
    before = [snap(a) for a in args] if "frame" in CLAUSES else None
    try:
        if HAS_STUB:
            with W.int_stub():
                r = WRAPPER(ts, *args)
        else:
            r = WRAPPER(ts, *args)
    except Exception as e:
        if "exc" in CLAUSES:
            return False, "exception %s: %s" % (type(e).__name__, e)
        return True, ""
    if "frame" in CLAUSES:
        if [snap(a) for a in args] != before:
            return False, "frame: an argument was modified"
        if r is not None and any(r is a for a in args):
            return False, "frame: the result is one of the arguments (aliasing)"
        if r is not None and not RULE.startswith("@"):
            # a candidate does not change after it has been yielded: a second application of the
            # rule elsewhere in the text (same values, other spans) must not touch the first result
            s1 = snap(r)
            args2 = build_args(p)
            for a in args2:
                a.mstart, a.mend = a.mstart + 40, a.mend + 40
            try:
                if HAS_STUB:
                    with W.int_stub():
                        r2 = WRAPPER(ts, *args2)
                else:
                    r2 = WRAPPER(ts, *args2)
            except Exception:
                r2 = None
            if r2 is r or snap(r) != s1:
                return False, "frame: the result object is shared between applications (a later application rewrote an earlier result)"
    if r is None:
        if "closure" in CLAUSES and "N" not in ALLOWED:
            return False, "closure: result shape N outside the recorded closure"
        return True, ""
    if "wf" in CLAUSES and not wf_any(r):
        return False, "result not well formed: %s" % (r,)
    if "closure" in CLAUSES and W.skey(r) not in ALLOWED:
        return False, "closure: result shape %s outside the recorded closure" % W.skey(r)
    if "span" in CLAUSES and (r.mstart, r.mend) != (args[0].mstart, args[-1].mend):
        return False, "result span is not the hull of the argument spans"
    return True, ""


def ob_step(p0: int, p1: int, p2: int, p3: int, p4: int, p5: int, p6: int, p7: int, p8: int, p9: int,
            p10: int, p11: int, p12: int, p13: int, p14: int, p15: int, p16: int, p17: int, p18: int,
            p19: int, p20: int, p21: int, p22: int, p23: int) -> bool:
    """
    pre: pre_ok((p0, p1, p2, p3, p4, p5, p6, p7, p8, p9, p10, p11, p12, p13, p14, p15, p16, p17, p18, p19, p20, p21, p22, p23))
    post: _
    """
    return run_step((p0, p1, p2, p3, p4, p5, p6, p7, p8, p9, p10, p11, p12, p13, p14, p15, p16, p17,
                     p18, p19, p20, p21, p22, p23))[0]


def why_step(*p):
    return run_step(p)[1]


def lift_step(*p):
    from vq.harness import lift
    return lift.lift_step(SPEC, p, build_args(p), run_step(p)[1], _ts(p))
