"""API-level differential obligations for C05 / C06 / C20 (pool indices symbolic, real parser
untraced): the property statements evaluated with the real ctparse."""
import os
import sys
from datetime import datetime

import ctparse.ctparse  # noqa
from ctparse.types import Time, Interval
from crosshair.tracers import NoTracing, ResumedTracing

C = sys.modules["ctparse.ctparse"]
TSS = [datetime(2018, 3, 7, 12, 43), datetime(2024, 2, 29, 23, 59, 30), datetime(2021, 12, 31, 0, 0)]
WIDE = os.environ.get("VQ_WIDE", "0") == "1"
_HLO, _HHI = int(os.environ.get("VQ_HLO", "0")), int(os.environ.get("VQ_HHI", "24"))
HOURS = list(range(_HLO, _HHI)) if WIDE else [0, 1, 9, 11, 12, 13, 20, 23]
MINUTES = list(range(60)) if WIDE else [0, 5, 30, 59]
NH, NM = len(HOURS), len(MINUTES)
MONTHS_EN = ["january", "february", "march", "april", "may", "june", "july", "august", "september", "october", "november", "december"]
MONTHS_DE = ["januar", "februar", "märz", "april", "mai", "juni", "juli", "august", "september", "oktober", "november", "dezember"]
NAMED = ["twelve", "one", "two", "three", "four", "five", "six", "seven", "eight", "nine", "ten", "eleven"]


def _pick(x, n):
    with ResumedTracing():
        for v in range(n):
            if x == v:
                return v
    return 0


def _key(r):
    if isinstance(r, Time):
        return (r.year, r.month, r.day, r.hour, r.minute)
    return None


def _p(text, ts, **kw):
    return C.ctparse(text, ts=ts, timeout=0, **kw).resolution


def _ord(n):
    if 10 <= n % 100 <= 20:
        return "%dth" % n
    return "%d%s" % (n, {1: "st", 2: "nd", 3: "rd"}.get(n % 10, "th"))


# ------------------------------------------------------------------ C06

def clock_notations(h, m):
    """every notation of the property text that can express h:m"""
    out = ["%d:%02d" % (h, m), "%02d:%02d" % (h, m), "%d:%02d uhr" % (h, m), "%dh%02d" % (h, m)]
    h12 = h % 12 or 12
    ap = "am" if h < 12 else "pm"
    out += ["%d:%02d %s" % (h12, m, ap), "%d:%02d%s" % (h12, m, ap.upper()), "%d.%02d %s" % (h12, m, "a.m." if h < 12 else "p.m.")]
    if m % 5 == 0 and not (h == 20 and m < 60):
        out.append("%02d%02d" % (h, m))
    if m == 0:
        out += ["%d uhr" % h, "%d %s" % (h12, ap), "%d o'clock" % h, "%d h" % h]
        out.append("%s o'clock %s" % (NAMED[h % 12], "in the morning" if h < 12 else ("in the afternoon" if h < 18 else "in the evening")) if 1 <= h % 12 or h in (0, 12) else "%d:00" % h)
        # '<hour> in the <part of day>' with the hour marked as a clock hour; the bare form
        # ("9 in the morning") is the listed known finding of C06 (ranked as day of month + part of day)
        if 1 <= h <= 11:
            out.append("%d o'clock in the morning" % h)
        if 13 <= h <= 17:
            out.append("%d o'clock in the afternoon" % (h - 12))
        if 18 <= h <= 23:
            out.append("%d o'clock in the evening" % (h - 12))
    if m == 15:
        out += ["quarter past %d" % h, "viertel nach %d" % h]
    if m == 30:
        out += ["half past %d" % h, "halb %d" % ((h + 1) % 24)]
    if m == 45:
        out += ["quarter to %d" % ((h + 1) % 24), "viertel vor %d" % ((h + 1) % 24)]
    return out


def clock_check(h, m, ts):
    bad = []
    for n in clock_notations(h, m):
        if n.startswith("twelve o'clock in the morning") or n.startswith("twelve o'clock in the afternoon"):
            continue
        r = _p(n, ts, latent_time=False)
        k = _key(r)
        if k is None or (k[3], k[4] or 0) != (h, m) or k[:3] != (None, None, None):
            bad.append((n, str(r)))
    # latent anchoring: first such time strictly after the reference minute, within 24 hours
    r = _p("%d:%02d" % (h, m), ts)
    k = _key(r)
    from datetime import timedelta
    want = ts.replace(hour=h, minute=m, second=0, microsecond=0)
    if (h, m) <= (ts.hour, ts.minute):
        want += timedelta(days=1)
    if k != (want.year, want.month, want.day, h, m):
        bad.append(("latent %d:%02d" % (h, m), str(r)))
    return (not bad), "clock notations of %02d:%02d: %r" % (h, m, bad[:4])


def ob_clock(hi: int, mi: int, tsi: int) -> bool:
    """
    pre: 0 <= hi < NH and 0 <= mi < NM and 0 <= tsi < 3
    post: _
    """
    with NoTracing():
        return clock_check(HOURS[_pick(hi, NH)], MINUTES[_pick(mi, NM)], TSS[_pick(tsi, 3)])[0]


def why_clock(hi, mi, tsi):
    return clock_check(HOURS[hi], MINUTES[mi], TSS[tsi])[1]


# ------------------------------------------------------------------ C05

YEARS = [int(v) for v in os.environ["VQ_YEARS"].split(",")] if os.environ.get("VQ_YEARS") else ([1990, 2000, 2016, 2029] if WIDE else [2000, 2029])
DAYS = [1, 5, 9, 12, 13, 17, 21, 25, 28, 29, 30, 31] if WIDE else [12, 29, 31]
MONTHS = list(range(1, 13)) if WIDE else [2, 3, 12]
NMO = len(MONTHS)
NY, ND = len(YEARS), len(DAYS)


HI0, MI0 = HOURS.index(9) if 9 in HOURS else 0, MINUTES.index(30)
DI0, MO0 = DAYS.index(12), MONTHS.index(3)


def date_notations(d, m, y):
    out = ["%d.%d.%d" % (d, m, y), "%02d.%02d.%d" % (d, m, y), "%d/%d/%d" % (d, m, y), "%d-%d-%d" % (d, m, y)]
    if y >= 2000:
        out.append("%02d.%02d.%02d" % (d, m, y % 100))
    # month-name notations; stand-alone years readable as hh:mm (mm multiple of 5) are excluded (documented heuristic)
    hh, mm = divmod(y, 100)
    if not (hh <= 23 and mm <= 59 and mm % 5 == 0):
        out += ["%s %s %d" % (_ord(d), MONTHS_EN[m - 1], y), "%s %d %d" % (MONTHS_EN[m - 1], d, y), "%d. %s %d" % (d, MONTHS_DE[m - 1], y),
                "%d %s %d" % (d, MONTHS_EN[m - 1][:3], y)]
    return out


def date_clock_forms(n, h, mi):
    return [n + " %d:%02d" % (h, mi), n + " at %d:%02d" % (h, mi)]


def date_check(d, m, y, h, mi):
    from vq.spec.cal import mdays
    if d > mdays(y, m):
        return True, "not a calendar date"
    bad = []
    from datetime import timedelta
    # the fixed reference times plus one a few hours before the written instant
    for tsi, ts in enumerate(TSS[:2] + [datetime(y, m, d, h, mi) - timedelta(hours=10)]):
        for n in date_notations(d, m, y):
            k = _key(_p(n, ts))
            if k != (y, m, d, None, None):
                bad.append((n, ts.isoformat(), k))
            for form in date_clock_forms(n, h, mi):
                k2 = _key(_p(form, ts))
                if k2 != (y, m, d, h, mi):
                    bad.append((form, ts.isoformat(), k2))
    return (not bad), "notations of %04d-%02d-%02d: %r" % (y, m, d, bad[:4])


def ob_date(di: int, m: int, yi: int, hi: int, mi: int) -> bool:
    """
    pre: 0 <= di < ND and 0 <= m < NMO and 0 <= yi < NY and 0 <= hi < NH and 0 <= mi < NM
    pre: (hi == HI0 and mi == MI0) or (di == DI0 and m == MO0 and yi == 0 and ((WIDE and mi in (0, 5, 30, 59)) or (not WIDE and (hi == 0 or hi == 7) and mi != 2)))
    post: _
    """
    with NoTracing():
        return date_check(DAYS[_pick(di, ND)], MONTHS[_pick(m, NMO)], YEARS[_pick(yi, NY)], HOURS[_pick(hi, NH)], MINUTES[_pick(mi, NM)])[0]


def why_date(di, m, yi, hi, mi):
    return date_check(DAYS[di], MONTHS[m], YEARS[yi], HOURS[hi], MINUTES[mi])[1]


# ------------------------------------------------------------------ C20

DAYEXPR = ["tomorrow", "on friday", "friday", "next monday", "12.03.2021", "march 3rd", "on the 15th", "morgen", "freitag", "3. april 2022",
           "yesterday", "saturday next week", "today", "30.04.2021", "heute"]
CLOCKS = [("7 a.m.", 7, 0), ("8pm", 20, 0), ("8:30", 8, 30), ("20:15", 20, 15), ("9 uhr", 9, 0), ("half past 7", 7, 30), ("11:59 pm", 23, 59), ("0:05", 0, 5), ("12:30 pm", 12, 30)]
CONN = ["", "at ", "um "]
NDE, NCL = len(DAYEXPR), len(CLOCKS)


def compose_check(de, cl, conn, order, ts):
    day = _p(de, ts)
    if not isinstance(day, Time) or day.year is None or day.hour is not None:
        return True, "day expression alone is not a plain date"
    ctext, h, m = cl
    text = (de + " " + conn + ctext) if order else (conn + ctext + " " + de)
    # no depth limit: with the default beam of 10 long derivations can be pruned (listed known finding of C20)
    r = _p(text, ts, max_stack_depth=0)
    k = _key(r)
    want = (day.year, day.month, day.day, h, m)
    if k is None or (k[0], k[1], k[2], k[3], k[4] or 0) != want:
        return False, "%r at %s -> %s, expected the day of %r (%04d-%02d-%02d) at %02d:%02d" % (text, ts.isoformat(), r, de, day.year, day.month, day.day, h, m)
    return True, ""


def ob_compose(di: int, ci: int, ki: int, order: bool, tsi: int) -> bool:
    """
    pre: 0 <= di < NDE and 0 <= ci < NCL and 0 <= ki < 3 and 0 <= tsi < 3 and (ki == 0 or tsi == 0)
    post: _
    """
    with NoTracing():
        return compose_check(DAYEXPR[_pick(di, NDE)], CLOCKS[_pick(ci, NCL)], CONN[_pick(ki, 3)], bool(_pick(order, 2)), TSS[_pick(tsi, 3)])[0]


def why_compose(di, ci, ki, order, tsi):
    return compose_check(DAYEXPR[di], CLOCKS[ci], CONN[ki], bool(order), TSS[tsi])[1]


# ------------------------------------------------------------------ C03: an omitted reference time means the current time

TEXTS03 = ["now", "tomorrow", "today", "next friday", "end of month", "8pm"]


class _FakeDT(datetime):
    _now = None

    @classmethod
    def now(cls, tz=None):
        return cls._now


def ob_ts_default(ti: int, y: int, mo: int, d: int, h: int, mi: int) -> bool:
    """
    pre: 0 <= ti < 6 and 0 <= y <= 3 and 0 <= mo <= 3 and 0 <= d <= 2 and 0 <= h <= 2 and 0 <= mi <= 2
    post: _
    """
    with NoTracing():
        yy = [2016, 2023, 2024, 2043][_pick(y, 4)]
        mm = [1, 2, 6, 12][_pick(mo, 4)]
        dd = [1, 15, 28][_pick(d, 3)]
        ts = datetime(yy, mm, dd, [0, 12, 23][_pick(h, 3)], [0, 30, 59][_pick(mi, 3)], 17)
        text = TEXTS03[_pick(ti, 6)]
        _FakeDT._now = ts
        old = C.datetime
        C.datetime = _FakeDT
        try:
            a = C.ctparse(text, timeout=0)
        finally:
            C.datetime = old
        b = C.ctparse(text, ts=ts, timeout=0)
        return str(a.resolution) == str(b.resolution) and a.production == b.production


# ------------------------------------------------------------------ C07: ranges at API level

RH = [0, 1, 9, 12, 13, 17, 23]
JOIN = [("{a} - {b}", 0), ("{a} to {b}", 0), ("{a} bis {b}", 0), ("{a} until {b}", 0), ("between {a} and {b}", 0), ("von {a} bis {b}", 0)]
CTX = ["", "tomorrow ", "12.03.2021 ", "friday "]
SEPS7 = [" ", "\t", "\n", "  "]
INCOMPLETE = ["tomorrow 9 -", "9 to", "von 9 bis", "5.8. -"]


def _iv_key(r):
    if not isinstance(r, Interval):
        return None
    f, t = r.t_from, r.t_to
    return (None if f is None else (f.year, f.month, f.day, f.hour, f.minute or 0), None if t is None else (t.year, t.month, t.day, t.hour, t.minute or 0))


def range_check(h1, h2, ji, ci, si, prior, ts):
    from datetime import timedelta
    a, b = "%d:00" % h1, "%d:00" % h2
    text = CTX[ci] + JOIN[ji][0].format(a=a, b=b)
    text = text.replace(" ", SEPS7[si])
    if prior:
        _p(INCOMPLETE[prior - 1], ts, max_stack_depth=0)
    if ci == 0:
        r = _p(text, ts, latent_time=False, max_stack_depth=0)
        e2 = h2 + 12 if (h1 > h2 and h1 <= 12 and h2 <= 12) else h2
        want = ((None, None, None, h1, 0), (None, None, None, e2, 0))
    else:
        day = _p(CTX[ci].strip(), ts)
        r = _p(text, ts, max_stack_depth=0)
        start = datetime(day.year, day.month, day.day, h1, 0)
        end = datetime(day.year, day.month, day.day, h2, 0)
        if end <= start:
            if h1 <= 12 and h2 <= 12 and h1 >= h2 and end + timedelta(hours=12) > start:
                end += timedelta(hours=12)
            else:
                end += timedelta(days=1)
        want = ((start.year, start.month, start.day, start.hour, 0), (end.year, end.month, end.day, end.hour, 0))
    got = _iv_key(r)
    if got != want:
        return False, "%r at %s -> %s, expected %r" % (text, ts.isoformat(), r, want)
    return True, ""


def ob_ranges(i1: int, i2: int, ji: int, ci: int, si: int, prior: int) -> bool:
    """
    pre: 0 <= i1 < 7 and 0 <= i2 < 7 and 0 <= ji < 6 and 0 <= ci < 4 and 0 <= si < 4 and 0 <= prior <= 4
    pre: (si == 0 and prior == 0) or (i1 == 2 and i2 == 5)
    post: _
    """
    with NoTracing():
        return range_check(RH[_pick(i1, 7)], RH[_pick(i2, 7)], _pick(ji, 6), _pick(ci, 4), _pick(si, 4), _pick(prior, 5), TSS[0])[0]


def why_ranges(i1, i2, ji, ci, si, prior):
    return range_check(RH[i1], RH[i2], ji, ci, si, prior, TSS[0])[1]


OPEN_FORMS = [("before {x}", "to"), ("until {x}", "to"), ("bis {x}", "to"), ("not before {x}", "from"), ("nicht vor {x}", "from"),
              ("after {x}", "from"), ("from {x}", "from"), ("ab {x}", "from"), ("not after {x}", "to"), ("nicht nach {x}", "to")]


def open_check(fi, h, si, ts):
    form, side = OPEN_FORMS[fi]
    text = form.format(x="%d:30" % h).replace(" ", SEPS7[si])
    r = _p(text, ts, latent_time=False, max_stack_depth=0)
    k = _iv_key(r)
    want = ((None, None, None, h, 30), None) if side == "from" else (None, (None, None, None, h, 30))
    if k != want:
        return False, "%r -> %s, expected a half-open interval bounded on the %r side at %d:30" % (text, r, side, h)
    return True, ""


def ob_open(fi: int, hi: int, si: int) -> bool:
    """
    pre: 0 <= fi < 10 and 0 <= hi < 7 and 0 <= si < 4
    post: _
    """
    with NoTracing():
        return open_check(_pick(fi, 10), RH[_pick(hi, 7)], _pick(si, 4), TSS[0])[0]


def why_open(fi, hi, si):
    return open_check(fi, RH[hi], si, TSS[0])[1]


def dom_fresh_ranges():
    return [(2, 5, ji, ci, 0, prior) for prior in (1, 2, 3, 4) for ji in range(6) for ci in (0, 1)]
