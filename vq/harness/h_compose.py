"""C20 — date part and clock part compose; C05 — absolute date rules mean what they say."""
from datetime import datetime
from typing import Optional

from vq.harness.common import REG, Time, Interval, PODS
from vq.spec.cal import mdays
from vq.spec.wf import key_time
from vq import wfgen as W
from vq.harness import lift as L

W.install_int_stub()
TS = datetime(2020, 1, 1)
TS_COMMON = datetime(2021, 7, 9, 13, 5)      # a reference time in a non-leap year
QP = [PODS.index(x) for x in ("morning", "afternoon", "night", "last", "noon", "veryearlymorning") if x in PODS]
MONTH_GROUPS = ["january", "february", "march", "april", "may", "june", "july", "august", "september",
                "october", "november", "december"]


def w(name):
    return REG[name][0]


def A(n):
    return [("art", None)] * n


# ------------------------------------------------------------------ C20

def ob_datetod(y: int, m: int, d: int, h: int, mi: Optional[int], order: bool) -> bool:
    """
    pre: 1880 <= y <= 2109 and 1 <= m <= 12 and 1 <= d <= mdays(y, m) and 0 <= h <= 23 and (mi is None or 0 <= mi <= 59)
    post: _
    """
    date, tod = Time(year=y, month=m, day=d), Time(hour=h, minute=mi)
    r = w("ruleDateTOD")(TS, date, tod) if order else w("ruleTODDate")(TS, tod, date)
    return r is not None and key_time(r) == (y, m, d, h, mi, None, None)


def lift_datetod(y, m, d, h, mi, order):
    date, tod = Time(year=y, month=m, day=d), Time(hour=h, minute=mi)
    exp = ("T", y, m, d, h, mi, None, None)
    if order:
        return L.contract("ruleDateTOD", A(2), [date, tod], TS, exp)
    return L.contract("ruleTODDate", A(2), [tod, date], TS, exp)


def ob_datepod(y: int, m: int, d: int, pi: int, order: bool) -> bool:
    """
    pre: 1880 <= y <= 2109 and 1 <= m <= 12 and 1 <= d <= mdays(y, m) and pi in QP
    post: _
    """
    date, pod = Time(year=y, month=m, day=d), Time(POD=PODS[pi])
    r = w("ruleDatePOD")(TS, date, pod) if order else w("rulePODDate")(TS, pod, date)
    return r is not None and key_time(r) == (y, m, d, None, None, None, PODS[pi])


def lift_datepod(y, m, d, pi, order):
    date, pod = Time(year=y, month=m, day=d), Time(POD=PODS[pi])
    exp = ("T", y, m, d, None, None, None, PODS[pi])
    if order:
        return L.contract("ruleDatePOD", A(2), [date, pod], TS, exp)
    return L.contract("rulePODDate", A(2), [pod, date], TS, exp)


def ob_dowdate(y: int, m: int, d: int, x: int, pi: int, haspod: bool, order: bool) -> bool:
    """
    pre: 1880 <= y <= 2109 and 1 <= m <= 12 and 1 <= d <= mdays(y, m) and 0 <= x <= 6 and pi in QP
    post: _
    """
    pod = PODS[pi] if haspod else None
    date, dow = Time(year=y, month=m, day=d), Time(DOW=x, POD=pod)
    r = w("ruleDOWDate")(TS, dow, date) if order else w("ruleDateDOW")(TS, date, dow)
    return r is not None and key_time(r) == (y, m, d, None, None, None, pod)


def ob_absorb(y: Optional[int], m: Optional[int], d: Optional[int], h: Optional[int], mi: Optional[int], x: Optional[int], shape: int) -> bool:
    """
    pre: 0 <= shape <= 4
    pre: y is None or 1880 <= y <= 2109
    pre: m is None or 1 <= m <= 12
    pre: d is None or 1 <= d <= 28
    pre: h is None or 0 <= h <= 23
    pre: mi is None or 0 <= mi <= 59
    pre: x is None or 0 <= x <= 6
    post: _
    """
    # shapes: 0 date, 1 date+time, 2 clock, 3 weekday, 4 day+month
    if shape == 0:
        t = Time(year=y or 2020, month=m or 1, day=d or 1)
    elif shape == 1:
        t = Time(year=y or 2020, month=m or 1, day=d or 1, hour=h or 0, minute=mi)
    elif shape == 2:
        t = Time(hour=h or 0, minute=mi)
    elif shape == 3:
        t = Time(DOW=x or 0)
    else:
        t = Time(month=m or 1, day=d or 1)
    k = key_time(t)
    t.mstart, t.mend = 3, 8
    r = w("ruleAbsorbOnTime")(TS, W.StubMatch({}, 0, 2), t)
    return r is not None and key_time(r) == k and key_time(t) == k and (t.mstart, t.mend) == (3, 8) and (r.mstart, r.mend) == (0, 8)


# ------------------------------------------------------------------ C05

def _month_groups(month, named):
    g = {}
    if named:
        g["named_month"] = "x"
        g[MONTH_GROUPS[month - 1]] = "x"
    else:
        g["month"] = W.Num(month)
    return g


def spec_year(y):
    return y + 2000 if y < 100 else y


def ob_ddmmyyyy(d: int, m: int, named: bool, y: int) -> bool:
    """
    pre: 1 <= d <= 31 and 1 <= m <= 12 and (0 <= y <= 99 or 1900 <= y <= 2029)
    post: _
    """
    g = {"day": W.Num(d), "year": W.Num(y)}
    g.update(_month_groups(m, named))
    r = w("ruleDDMMYYYY")(TS, W.StubMatch(g))
    yy = spec_year(y)
    if d <= mdays(yy, m):
        return r is not None and key_time(r) == (yy, m, d, None, None, None, None)
    return r is None


def lift_ddmmyyyy(d, m, named, y):
    g = {"day": W.Num(d), "year": W.Num(y)}
    g.update(_month_groups(m, named))
    yy = spec_year(y)
    exp = ("T", yy, m, d, None, None, None, None) if d <= mdays(yy, m) else None
    return L.contract("ruleDDMMYYYY", [("rm", 126)], [W.StubMatch(g)], TS, exp)


def ob_ddmm(d: int, m: int, named: bool, mmdd: bool, common: bool) -> bool:
    """
    pre: 1 <= d <= 31 and 1 <= m <= 12
    post: _
    """
    g = {"day": W.Num(d)}
    g.update(_month_groups(m, named))
    r = w("ruleMMDD" if mmdd else "ruleDDMM")(TS_COMMON if common else TS, W.StubMatch(g))
    if d <= mdays(None, m):
        return r is not None and key_time(r) == (None, m, d, None, None, None, None)
    return r is None


def lift_ddmm(d, m, named, mmdd, common):
    g = {"day": W.Num(d)}
    g.update(_month_groups(m, named))
    exp = ("T", None, m, d, None, None, None, None) if d <= mdays(None, m) else None
    return L.contract("ruleMMDD" if mmdd else "ruleDDMM", [("rm", 125 if mmdd else 124)], [W.StubMatch(g)], TS_COMMON if common else TS, exp)


def ob_simple(v: int, which: int) -> bool:
    """
    pre: 0 <= which <= 3 and 1 <= v <= 31 and (which <= 1 or v <= 12)
    post: _
    """
    if which == 0:
        r = w("ruleDOM1")(TS, W.StubMatch({"day": W.Num(v)}))
        return r is not None and key_time(r) == (None, None, v, None, None, None, None)
    if which == 1:
        r = w("ruleDOM2")(TS, W.StubMatch({"day": W.Num(v)}))
        return r is not None and key_time(r) == (None, None, v, None, None, None, None)
    if which == 2:
        r = w("ruleMonthOrdinal")(TS, W.StubMatch({"month": W.Num(v)}))
        return r is not None and key_time(r) == (None, v, None, None, None, None, None)
    r = w("ruleNamedMonth")(TS, W.StubMatch({MONTH_GROUPS[v - 1]: "x"}))
    return r is not None and key_time(r) == (None, v, None, None, None, None, None)


def spec_two_digit_year(ref, y):
    """Excel-like window (documented in the rule): 0 .. yy+9 -> same century, above -> previous"""
    cc, yy = ref // 100, ref % 100
    return cc * 100 + y if y < yy + 10 else (cc - 1) * 100 + y


def ob_year(ref: int, y: int) -> bool:
    """
    pre: 1970 <= ref <= 2100 and (0 <= y <= 99 or 1900 <= y <= 2029)
    post: _
    """
    r = w("ruleYear")(datetime(ref, 6, 15, 12, 0), W.StubMatch({"year": W.Num(y)}))
    e = y if y >= 100 else spec_two_digit_year(ref, y)
    return r is not None and key_time(r) == (e, None, None, None, None, None, None) and 1880 <= e <= 2109


def lift_year(ref, y):
    e = y if y >= 100 else spec_two_digit_year(ref, y)
    return L.contract("ruleYear", [("rm", 111)], [W.StubMatch({"year": W.Num(y)})], datetime(ref, 6, 15, 12, 0), ("T", e, None, None, None, None, None, None))


def ob_dommonth(d: int, m: int, which: int, common: bool) -> bool:
    """
    pre: 1 <= d <= 31 and 1 <= m <= 12 and 0 <= which <= 2
    post: _
    """
    dom, mon = Time(day=d), Time(month=m)
    ts = TS_COMMON if common else TS
    if which == 0:
        r = w("ruleDOMMonth")(ts, dom, mon)
    elif which == 1:
        r = w("ruleDOMMonth2")(ts, dom, W.StubMatch({}, 4, 6), mon)
    else:
        r = w("ruleMonthDOM")(ts, mon, dom)
    if d <= mdays(None, m):
        return r is not None and key_time(r) == (None, m, d, None, None, None, None)
    return r is None


def lift_dommonth(d, m, which, common):
    dom, mon = Time(day=d), Time(month=m)
    TS = TS_COMMON if common else globals()["TS"]
    exp = ("T", None, m, d, None, None, None, None) if d <= mdays(None, m) else None
    if which == 0:
        return L.contract("ruleDOMMonth", A(2), [dom, mon], TS, exp)
    if which == 1:
        return L.contract("ruleDOMMonth2", [("art", None), ("rm", 120), ("art", None)], [dom, W.StubMatch({}, 4, 6), mon], TS, exp)
    return L.contract("ruleMonthDOM", A(2), [mon, dom], TS, exp)


def ob_doyyear(d: int, m: int, y: int) -> bool:
    """
    pre: 1 <= m <= 12 and 1 <= d <= mdays(None, m) and 1880 <= y <= 2109
    post: _
    """
    r = w("ruleDOYYear")(TS, Time(month=m, day=d), Time(year=y))
    if d <= mdays(y, m):
        return r is not None and key_time(r) == (y, m, d, None, None, None, None)
    return r is None


def lift_doyyear(d, m, y):
    exp = ("T", y, m, d, None, None, None, None) if d <= mdays(y, m) else None
    return L.contract("ruleDOYYear", A(2), [Time(month=m, day=d), Time(year=y)], TS, exp)


def ob_tsindep(y1: int, mo1: int, d1: int, h1: int, y2: int, mo2: int, d2: int, h2: int,
               d: int, m: int, named: bool, y: int, h: int, mi: Optional[int]) -> bool:
    """
    pre: 1970 <= y1 <= 2100 and 1970 <= y2 <= 2100 and 1 <= mo1 <= 12 and 1 <= mo2 <= 12 and 1 <= d1 <= 28 and 1 <= d2 <= 28
    pre: 0 <= h1 <= 23 and 0 <= h2 <= 23
    pre: 1 <= d <= 28 and 1 <= m <= 12 and 1900 <= y <= 2029 and 0 <= h <= 23 and (mi is None or 0 <= mi <= 59)
    post: _
    """
    out = []
    for ts in (datetime(y1, mo1, d1, h1, 7), datetime(y2, mo2, d2, h2, 53)):
        g = {"day": W.Num(d), "year": W.Num(y)}
        g.update(_month_groups(m, named))
        date = w("ruleDDMMYYYY")(ts, W.StubMatch(g))
        dm = w("ruleDOMMonth")(ts, Time(day=d), Time(month=m))
        dy = w("ruleDOYYear")(ts, dm, Time(year=y))
        dt = w("ruleDateTOD")(ts, date, Time(hour=h, minute=mi))
        out.append((key_time(date), key_time(dm), key_time(dy), key_time(dt)))
    return out[0] == out[1] and out[0][3] == (y, m, d, h, mi, None, None) and out[0][2] == (y, m, d, None, None, None, None)
