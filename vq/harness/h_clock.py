"""C06 — clock notations: exact contracts of the clock rules of ctparse/time/rules.py and of
the latent anchoring of a bare clock time.

Numeric regex groups are handed to the real rule bodies through a group stub whose values
are symbolic integers constrained by the token lemmas proved by E2 (TOK-VAL: hour text
denotes 0..23, minute text 00..59); tails (am/pm spellings, part-of-day names) are drawn by a
symbolic index from concrete lists.
"""
from datetime import datetime
from typing import Optional

from vq.harness.common import (body, G, M, NOMATCH, Time, CELL_Y, CELL_M, PODS, NPODS, TR, PL, CT,
                               parse, parse_all)
from vq.spec.cal import mdays, add_days_small
from vq.spec.wf import key_time

_ampm = TR._maybe_apply_am_pm
_valid_mil = TR._is_valid_military_time
_hhmm = body("ruleHHMM")
_mil = body("ruleHHMMmilitary")
_oclock = body("ruleHHOClock")
_named = body("ruleNamedHour")
_midnight = body("ruleMidnight")
_qb = body("ruleQuarterBeforeHH")
_qa = body("ruleQuarterAfterHH")
_hb = body("ruleHalfBeforeHH")
_ha = body("ruleHalfAfterHH")
_todpod = body("ruleTODPOD")
_podtod = body("rulePODTOD")
_latent_tod = PL._latent_tod

MDC = mdays(CELL_Y, CELL_M)


class Num:
    """text of a numeric group, known only through the integer it denotes"""

    def __init__(self, v):
        self.v = v

    def __int__(self):
        return self.v


def _int(x, *a):
    """`int` as seen by the rule bodies: the integer a stubbed numeric group denotes"""
    return x.v if isinstance(x, Num) else int(x, *a)


TR.int = _int   # module-level name shadows the builtin inside ctparse/time/rules.py only


# every spelling the am/pm tail group `\s*[ap]\.?m\.?` can capture, up to case (TOK lemma)
TAILS = [None, "am", "pm", "a.m.", "p.m.", " am", " pm", "AM", "PM", "a.m", "pm.", "  P.M.", "Am"]
NT = len(TAILS)


def spec_ampm(h, tail):
    """12 am is midnight, 12 pm is noon, h pm = h + 12; am on an hour > 12 is ignored"""
    if tail is None or h == 0:
        return h
    k = tail.strip().lower()[0]
    if k == "a":
        return 0 if h == 12 else h
    return h + 12 if h < 12 else h


def ob_ampm(h: int, mi: Optional[int], ti: int) -> bool:
    """
    pre: 0 <= h <= 23 and (mi is None or 0 <= mi <= 59) and 0 <= ti < NT
    post: _
    """
    tail = TAILS[ti]
    r = _ampm(Time(hour=h, minute=mi), tail)
    return r is not None and key_time(r) == (None, None, None, spec_ampm(h, tail), mi, None, None)


def ob_hhmm(h: int, mi: Optional[int], ti: int) -> bool:
    """
    pre: 0 <= h <= 23 and (mi is None or 0 <= mi <= 59) and 0 <= ti < NT
    post: _
    """
    tail = TAILS[ti]
    g = G(hour=Num(h), minute=None if mi is None else Num(mi), ampm=tail)
    r = _hhmm(datetime(2020, 1, 1), M(g))
    return r is not None and key_time(r) == (None, None, None, spec_ampm(h, tail), mi or 0, None, None)


def spec_military(y, mo, h, mi):
    """documented heuristic: hhmm is read as a year if it equals the reference year or the year
    three months ahead, or if the minutes are not a multiple of 5"""
    v = h * 100 + mi
    y3 = y + 1 if mo >= 10 else y
    return not (v == y or v == y3 or mi % 5 != 0)


def ob_military(h: int, mi: int, clock: bool, ti: int, valid: bool) -> bool:
    """
    pre: 0 <= h <= 23 and 0 <= mi <= 59 and 0 <= ti < NT
    post: _
    """
    tail = TAILS[ti]
    g = G(hour=Num(h), minute=Num(mi), clock="uhr" if clock else None, ampm=tail)
    old = TR._is_valid_military_time
    TR._is_valid_military_time = lambda ts, t: valid     # its own contract: ob_validmil
    try:
        r = _mil(datetime(2020, 1, 1, 10, 0), M(g))
    finally:
        TR._is_valid_military_time = old
    if clock or valid:
        return r is not None and key_time(r) == (None, None, None, spec_ampm(h, tail), mi, None, None)
    return r is None


def ob_validmil(d: int, hh: int, mm: int, h: Optional[int], mi: Optional[int]) -> bool:
    """
    pre: 1 <= d <= MDC and 0 <= hh <= 23 and 0 <= mm <= 59
    pre: (h is None or 0 <= h <= 23) and (mi is None or 0 <= mi <= 59)
    post: _
    """
    r = _valid_mil(datetime(CELL_Y, CELL_M, d, hh, mm), Time(hour=h, minute=mi))
    if h is None or mi is None:
        return r is False
    return r == spec_military(CELL_Y, CELL_M, h, mi)


def ob_oclock(h: int) -> bool:
    """
    pre: 0 <= h <= 23
    post: _
    """
    r = _oclock(datetime(2020, 1, 1), M(G(hour=Num(h))))
    return r is not None and key_time(r) == (None, None, None, h, None, None, None)


def ob_named(n: int) -> bool:
    """
    pre: 1 <= n <= 12
    post: _
    """
    r = _named(datetime(2020, 1, 1), M(G(**{"t_%d" % n: "x"})))
    return r is not None and key_time(r) == (None, None, None, n, 0, None, None)


def ob_midnight(x: int) -> bool:
    """
    pre: x == 0
    post: _
    """
    r = _midnight(datetime(2020, 1, 1), NOMATCH)
    return r is not None and key_time(r) == (None, None, None, 0, 0, None, None)


def _qh(fn, h, mi, exp_h, exp_m) -> bool:
    r = fn(datetime(2020, 1, 1), NOMATCH, Time(hour=h, minute=mi))
    if mi:
        return r is None      # "quarter past 8:20" is rejected
    return r is not None and key_time(r) == (None, None, None, exp_h, exp_m, None, None)


def ob_quarter_before(h: int, mi: Optional[int]) -> bool:
    """
    pre: 0 <= h <= 23 and (mi is None or 0 <= mi <= 59)
    post: _
    """
    return _qh(_qb, h, mi, (h - 1) % 24, 45)


def ob_quarter_after(h: int, mi: Optional[int]) -> bool:
    """
    pre: 0 <= h <= 23 and (mi is None or 0 <= mi <= 59)
    post: _
    """
    return _qh(_qa, h, mi, h, 15)


def ob_half_before(h: int, mi: Optional[int]) -> bool:
    """
    pre: 0 <= h <= 23 and (mi is None or 0 <= mi <= 59)
    post: _
    """
    return _qh(_hb, h, mi, (h - 1) % 24, 30)


def ob_half_after(h: int, mi: Optional[int]) -> bool:
    """
    pre: 0 <= h <= 23 and (mi is None or 0 <= mi <= 59)
    post: _
    """
    return _qh(_ha, h, mi, h, 30)


def pod_class(pod):
    """am / pm / neutral class of a part-of-day name, by its base word (modifier prefixes
    very/early/late stripped) — written from the property text, not from the rule"""
    p = pod
    while True:
        for pre in ("very", "early", "late"):
            if p.startswith(pre) and len(p) > len(pre):
                p = p[len(pre):]
                break
        else:
            break
    if p in ("afternoon", "evening", "night", "last"):
        return "pm"
    if p in ("morning", "forenoon", "first"):
        return "am"
    return "neutral"


def spec_todpod(h, pod):
    c = pod_class(pod)
    if h < 12 and c == "pm":
        return h + 12
    if h > 12 and c == "am":
        return None
    return h


def _chk_todpod(r, h, mi, pod) -> bool:
    e = spec_todpod(h, pod)
    if e is None:
        return r is None
    return r is not None and key_time(r) == (None, None, None, e, mi, None, None)


def ob_todpod(h: int, mi: Optional[int], pi: int) -> bool:
    """
    pre: 0 <= h <= 23 and (mi is None or 0 <= mi <= 59) and 0 <= pi < NPODS
    post: _
    """
    pod = PODS[pi]
    return _chk_todpod(_todpod(datetime(2020, 1, 1), Time(hour=h, minute=mi), Time(POD=pod)), h, mi, pod)


def ob_podtod(h: int, mi: Optional[int], pi: int) -> bool:
    """
    pre: 0 <= h <= 23 and (mi is None or 0 <= mi <= 59) and 0 <= pi < NPODS
    post: _
    """
    pod = PODS[pi]
    return _chk_todpod(_podtod(datetime(2020, 1, 1), Time(POD=pod), Time(hour=h, minute=mi)), h, mi, pod)


# ---------------------------------------------------------------- latent anchoring

def ob_latent_tod(d: int, h: int, mi: int, s: int, H: int, Mi: Optional[int]) -> bool:
    """
    pre: 1 <= d <= MDC and 0 <= h <= 23 and 0 <= mi <= 59 and 0 <= s <= 59
    pre: 0 <= H <= 23 and (Mi is None or 0 <= Mi <= 59)
    post: _
    """
    r = _latent_tod(datetime(CELL_Y, CELL_M, d, h, mi, s), Time(hour=H, minute=Mi))
    m2 = Mi or 0
    # first H:m2 strictly after the reference minute, hence within 24 hours
    if H > h or (H == h and m2 > mi):
        e = (CELL_Y, CELL_M, d)
    else:
        e = add_days_small(CELL_Y, CELL_M, d, 1)
    return r is not None and key_time(r) == (e[0], e[1], e[2], H, m2, None, None)


def ob_latent_off(H: int, Mi: Optional[int], latent: bool) -> bool:
    """
    pre: 0 <= H <= 23 and (Mi is None or 0 <= Mi <= 59)
    post: _
    """
    t = Time(hour=H, minute=Mi)
    t.mstart, t.mend = 0, 3
    old = CT._ctparse

    def fake(txt, ts, timeout, relative_match_len, max_stack_depth, scorer):
        yield CT.CTParse(t, (1,), 0.0, "", [])
    CT._ctparse = fake
    try:
        out = list(CT.ctparse_gen("8pm", ts=datetime(2020, 1, 1, 7, 0), latent_time=latent))
    finally:
        CT._ctparse = old
    r = out[0].resolution
    if latent:
        return len(out) == 1 and key_time(r)[3:5] == (H, Mi or 0) and r.year is not None
    return len(out) == 1 and key_time(r) == (None, None, None, H, Mi, None, None)


# ---------------------------------------------------------------- lift (API replay)

TS0 = datetime(2018, 3, 7, 12, 43)


def _res(p):
    if p is None or p.resolution is None:
        return None
    r = p.resolution
    return list(key_time(r)) if isinstance(r, Time) else str(r)


def _api_clock(texts, expected_hm, ts=TS0):
    tried = []
    for text in texts:
        got = _res(parse(text, ts, latent_time=False))
        ok = isinstance(got, list) and (got[3], got[4]) == tuple(expected_hm)
        tried.append({"text": text, "ts": ts.isoformat(), "latent_time": False, "expected_hour_minute": list(expected_hm), "observed": got})
        if not ok:
            return {"reproduced": True, "witness": tried[-1], "tried": tried}
    return {"reproduced": False, "tried": tried}


def _tail_text(tail):
    return "" if tail is None else tail


def lift_ampm(h, mi, ti):
    tail = TAILS[ti]
    e = spec_ampm(h, tail)
    texts = ["%d:%02d%s" % (h, mi or 0, _tail_text(tail))]
    if tail and tail != tail.strip():
        # a tail with leading blanks is only captured by the ampm group after a clock word
        texts.append("%d:%02d h%s" % (h, mi or 0, tail))
    if mi is None:
        texts.append("%d%s" % (h, _tail_text(tail)) if tail else "%d uhr" % h)
    return _api_clock(texts, (e, mi or 0) if mi is not None else (e, 0))


lift_hhmm = lift_ampm


def lift_military(h, mi, clock, ti, valid):
    tail = TAILS[ti]
    text = "%02d%02d%s%s" % (h, mi, " uhr" if clock else "", _tail_text(tail))
    if tail and tail != tail.strip() and not clock:
        return {"reproduced": False, "note": "a blank-led tail is not capturable without a clock word (outer \\s* is greedy): unreachable pre-state"}
    ts = datetime(2018, 3, 7, 10, 0)
    if valid != spec_military(2018, 3, h, mi):
        return {"reproduced": False, "note": "validity flag not realisable at this reference time"}
    if clock or valid:
        return _api_clock([text], (spec_ampm(h, tail), mi), ts)
    got = _res(parse(text, ts, latent_time=False))
    bad = isinstance(got, list) and got[3] is not None and got[0] is None
    return {"reproduced": bad, "witness": {"text": text, "ts": ts.isoformat(), "expected": "not a clock time", "observed": got}}


def lift_validmil(d, hh, mm, h, mi):
    if h is None or mi is None:
        return {"reproduced": False, "note": "no surface form"}
    ts = datetime(CELL_Y, CELL_M, d, hh, mm)
    text = "%02d%02d" % (h, mi)
    got = _res(parse(text, ts, latent_time=False))
    is_clock = isinstance(got, list) and got[3] is not None
    exp = spec_military(CELL_Y, CELL_M, h, mi)
    return {"reproduced": is_clock != exp, "witness": {"text": text, "ts": ts.isoformat(), "expected_clock_reading": exp, "observed": got}}


def lift_oclock(h):
    return _api_clock(["%d o'clock" % h, "%d uhr" % h], (h, 0)) if False else _api_oclock(h)


def _api_oclock(h):
    tried = []
    for text in ["%d o'clock" % h, "%d uhr" % h]:
        got = _res(parse(text, TS0, latent_time=False))
        ok = isinstance(got, list) and got[3] == h and got[4] in (None, 0)
        tried.append({"text": text, "observed": got, "expected_hour": h})
        if not ok:
            return {"reproduced": True, "witness": tried[-1]}
    return {"reproduced": False, "tried": tried}


NAMED_EN = ["one", "two", "three", "four", "five", "six", "seven", "eight", "nine", "ten", "eleven", "twelve"]
NAMED_DE = ["eins", "zwei", "drei", "vier", "fünf", "sechs", "sieben", "acht", "neun", "zehn", "elf", "zwölf"]


def lift_named(n):
    return _api_clock(["%s o'clock" % NAMED_EN[n - 1], "%s uhr" % NAMED_DE[n - 1]], (n, 0))


def lift_midnight(x):
    return _api_clock(["midnight", "mitternacht"], (0, 0))


def _lift_q(word_en, word_de, h, mi, eh, em):
    if mi:
        return {"reproduced": False, "note": "rejection case; no API observable defined"}
    base = "%d:00" % h if mi == 0 else "%d uhr" % h
    return _api_clock(["%s %s" % (word_en, base), "%s %s" % (word_de, base)], (eh, em))


def lift_quarter_before(h, mi):
    return _lift_q("quarter to", "viertel vor", h, mi, (h - 1) % 24, 45)


def lift_quarter_after(h, mi):
    return _lift_q("quarter past", "viertel nach", h, mi, h, 15)


def lift_half_before(h, mi):
    return _lift_q("half to", "halb", h, mi, (h - 1) % 24, 30)


def lift_half_after(h, mi):
    return _lift_q("half past", "halb nach", h, mi, h, 30)


POD_PHRASE = {"morning": "in the morning", "afternoon": "in the afternoon", "evening": "in the evening",
              "night": "at night", "forenoon": "vormittags", "noon": "mittags"}


def lift_todpod(h, mi, pi):
    pod = PODS[pi]
    if pod not in POD_PHRASE:
        return {"reproduced": False, "note": "no surface form for " + pod}
    e = spec_todpod(h, pod)
    clock = "%d:%02d" % (h, mi) if mi is not None else "%d o'clock" % h
    text = "%s %s" % (clock, POD_PHRASE[pod])
    got = _res(parse(text, TS0, latent_time=False))
    if e is None:
        bad = isinstance(got, list) and got[3] is not None and got[3] != h
    else:
        bad = not (isinstance(got, list) and got[3] == e and (got[4] or 0) == (mi or 0))
    return {"reproduced": bad, "witness": {"text": text, "expected_hour": e, "observed": got}}


def lift_podtod(h, mi, pi):
    return lift_todpod(h, mi, pi)


def lift_latent_tod(d, h, mi, s, H, Mi):
    ts = datetime(CELL_Y, CELL_M, d, h, mi, s)
    m2 = Mi or 0
    e = (CELL_Y, CELL_M, d) if (H > h or (H == h and m2 > mi)) else add_days_small(CELL_Y, CELL_M, d, 1)
    text = "%d:%02d" % (H, m2)
    got = _res(parse(text, ts))
    exp = [e[0], e[1], e[2], H, m2, None, None]
    return {"reproduced": got != exp, "witness": {"text": text, "ts": ts.isoformat(), "expected": exp, "observed": got}}
