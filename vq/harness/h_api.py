"""API-level differential obligations for C09 / C10 / C11: the property's own statement is
evaluated with the real `ctparse` on texts assembled from small pools; the pool indices are
symbolic, so the solver covers every combination (each path is one concrete run of the real
code, untraced).  These complement the token-level lemmas (E2/E3), which are unbounded in the
strings but do not compose into "same winner"."""
import os
import sys
from datetime import datetime

import ctparse.ctparse  # noqa
from ctparse.types import Time, Interval, Duration
from crosshair.tracers import NoTracing, ResumedTracing

C = sys.modules["ctparse.ctparse"]
from ctparse.rule import _regex

TSS = [datetime(2018, 3, 7, 12, 43), datetime(2024, 2, 29, 23, 59)]
EXPRS = ["tomorrow 8pm", "friday", "8:30", "on the 31st", "march 3rd 2021", "9-5", "friday morning", "in the evening",
         "3 days", "monday 10:00 - 12:00", "heute abend", "12.03.2021 um 9 uhr", "am 19.12", "friday 14", "um 8 morgens", "may/8"]
_CAND_WORDS = ["zzzzzzzzzzzz", "foo", "lunch", "hm", "xyz", "bob", "meeting", "qq", "call"]
with NoTracing():
    pass


def _is_inert(w):
    return not C._match_regex(w, _regex)


INERT = [w for w in _CAND_WORDS if _is_inert(w)]
# 'hm' after a clock time is the listed known finding (the clock pattern takes its 'h'): it gets
# its own obligation; the general pool uses the other words
POOL_W = [w for w in INERT if w != "hm"][:int(os.environ.get("VQ_NWORDS", "2"))]
NW = len(POOL_W)
NTS = int(os.environ.get("VQ_NTS", "1"))
_ELO, _EHI = int(os.environ.get("VQ_ELO", "0")), int(os.environ.get("VQ_EHI", "100"))
EXPRS = EXPRS[_ELO:_EHI]
NE = len(EXPRS)


def _pick(x, n):
    with ResumedTracing():
        for v in range(n):
            if x == v:
                return v
    return 0


def _val(r):
    if r is None:
        return None
    if isinstance(r, Time):
        return ("T", r.year, r.month, r.day, r.hour, r.minute, r.DOW, r.POD)
    if isinstance(r, Interval):
        return ("I", _val(r.t_from), _val(r.t_to))
    return ("D", r.value, r.unit)


def _parse(text, ts, **kw):
    return C.ctparse(text, ts=ts, timeout=0, **kw)


def embed_check(expr, pre, suf, ts, latent=True):
    """C09: words around a time expression neither change its meaning nor blur its span"""
    base = _parse(expr, ts, latent_time=latent)
    text = " ".join(pre + [expr] + suf)
    emb = _parse(text, ts, latent_time=latent)
    if base.resolution is None:
        return True, "expression alone has no resolution (not a pool error of the code)"
    if emb.resolution is None or _val(emb.resolution) != _val(base.resolution):
        return False, "resolution changed: %r alone -> %s ; embedded %r -> %s" % (expr, base.resolution, text, emb.resolution)
    off = len(" ".join(pre)) + (1 if pre else 0)
    want = (base.resolution.mstart + off, base.resolution.mend + off)
    got = (emb.resolution.mstart, emb.resolution.mend)
    if got != want:
        return False, "span of %r in %r is %s, expected %s" % (expr, text, got, want)
    norm = C._preprocess_string(expr)
    if (base.resolution.mstart, base.resolution.mend) != (0, len(norm)):
        return False, "span of %r alone is %s, expected %s" % (expr, (base.resolution.mstart, base.resolution.mend), (0, len(norm)))
    return True, ""


def ob_embed(ei: int, npre: int, nsuf: int, w0: int, w1: int, w2: int, w3: int, tsi: int, latent: bool) -> bool:
    """
    pre: 0 <= ei < NE and 0 <= npre <= 2 and 0 <= nsuf <= 2 and 0 <= tsi < NTS
    pre: 0 <= w0 < NW and 0 <= w1 < NW and 0 <= w2 < NW and 0 <= w3 < NW
    pre: (npre > 1 or w1 == 0) and (npre > 0 or w0 == 0) and (nsuf > 1 or w3 == 0) and (nsuf > 0 or w2 == 0)
    post: _
    """
    with NoTracing():
        e = EXPRS[_pick(ei, NE)]
        pre = [POOL_W[_pick(w0, NW)], POOL_W[_pick(w1, NW)]][:_pick(npre, 3)]
        suf = [POOL_W[_pick(w2, NW)], POOL_W[_pick(w3, NW)]][:_pick(nsuf, 3)]
        return embed_check(e, pre, suf, TSS[_pick(tsi, 2)], bool(_pick(latent, 2)))[0]


def why_embed(ei, npre, nsuf, w0, w1, w2, w3, tsi, latent):
    e = EXPRS[ei]
    pre = [POOL_W[w0], POOL_W[w1]][:npre]
    suf = [POOL_W[w2], POOL_W[w3]][:nsuf]
    return embed_check(e, pre, suf, TSS[tsi], bool(latent))[1]


# ------------------------------------------------------------------ C10

NW10 = int(os.environ.get("VQ_NW10", "2"))
NT10 = int(os.environ.get("VQ_NT10", "3"))
NS10 = int(os.environ.get("VQ_NS10", "3"))
NTI10 = int(os.environ.get("VQ_NTI10", "2"))
WORDS10 = ["follow-up", "bob", "meet", "Q3"][:NW10]
TAGS10 = ["#a", "#ab", "#x-y", "#tag_1"][:NT10]
SEPS10 = [" ", ", ", ") ", "  ", " (", "; "][:NS10]
TIME10 = ["friday 8pm", "tomorrow", "12.03.2021"][:NTI10]


def subject_check(parts, tpos, ti, ts):
    """parts: list of (kind, text) with kind in w(ord) / t(ag); separators are included in the
    texts.  tpos: where the time expression goes (0..len)"""
    import re
    plain = "".join(p[1] for p in parts)
    tags = [p[1].strip(" ,;()")[1:] for p in parts if p[0] == "t"]
    nm = _parse(plain, ts)
    if nm.resolution is not None:
        return True, "pool text has a resolution by itself"
    withtime = "".join(p[1] for p in parts[:tpos]) + " " + TIME10[ti] + " " + "".join(p[1] for p in parts[tpos:])
    m = _parse(withtime, ts)
    if m.resolution is None:
        return False, "time expression %r not found in %r" % (TIME10[ti], withtime)
    if list(nm.labels) != tags or list(m.labels) != tags:
        return False, "labels: text %r -> %r, with time -> %r, tags written %r" % (plain, nm.labels, m.labels, tags)
    if any("#" in s for s in (nm.subject, m.subject)):
        return False, "hashtag leaked into the subject: %r / %r" % (nm.subject, m.subject)
    if nm.subject != m.subject:
        return False, "subject differs between the no-match path (%r -> %r) and the match path (%r -> %r)" % (plain, nm.subject, withtime, m.subject)
    words = [w for p in parts if p[0] == "w" for w in re.split(r"[\s\-,;()]+", p[1]) if w]
    if m.subject.split() != words:
        return False, "subject %r is not the non-time words %r in order" % (m.subject, words)
    # removing the tags changes neither the resolution nor the rest of the subject
    notags = "".join(p[1] for p in parts[:tpos] if p[0] == "w") + " " + TIME10[ti] + " " + "".join(p[1] for p in parts[tpos:] if p[0] == "w")
    m2 = _parse(notags, ts)
    if _val(m2.resolution) != _val(m.resolution) or m2.subject != m.subject or list(m2.labels) != []:
        return False, "removing the hashtags changed the result: %r -> (%s, %r) vs %r -> (%s, %r)" % (withtime, m.resolution, m.subject, notags, m2.resolution, m2.subject)
    # a hashtag inside a multi-token time expression changes nothing either
    if " " in TIME10[ti]:
        inside = TIME10[ti].replace(" ", " #zz ", 1)
        m3 = _parse(inside, ts)
        m4 = _parse(TIME10[ti], ts)
        if _val(m3.resolution) != _val(m4.resolution) or list(m3.labels) != ["zz"] or m3.subject != m4.subject:
            return False, "a hashtag inside the time expression changed the result: %r -> (%s, %r, %r) vs %r -> (%s, %r)" % (inside, m3.resolution, m3.subject, m3.labels, TIME10[ti], m4.resolution, m4.subject)
    return True, ""


NA10 = max(NW10, NT10)


def _mk_parts(k0, a0, s0, k1, a1, s1, k2, a2, s2, n):
    out = []
    for k, a, s in ((k0, a0, s0), (k1, a1, s1), (k2, a2, s2))[:n]:
        txt = (TAGS10 if k else WORDS10)[a]
        out.append(("t" if k else "w", txt + SEPS10[s]))
    return out


def ob_subject(n: int, k0: bool, a0: int, s0: int, k1: bool, a1: int, s1: int, k2: bool, a2: int, s2: int, tpos: int, ti: int) -> bool:
    """
    pre: 1 <= n <= 2 and 0 <= a0 < NA10 and 0 <= a1 < NA10 and a2 == 0 and 0 <= s0 < NS10 and 0 <= s1 < NS10 and s2 == 0 and not k2
    pre: (k0 or a0 < NW10) and (not k0 or a0 < NT10) and (k1 or a1 < NW10) and (not k1 or a1 < NT10)
    pre: 0 <= tpos <= n and 0 <= ti < NTI10
    pre: (n > 1 or (not k1 and a1 == 0 and s1 == 0))
    post: _
    """
    with NoTracing():
        parts = _mk_parts(bool(_pick(k0, 2)), _pick(a0, NA10), _pick(s0, NS10), bool(_pick(k1, 2)), _pick(a1, NA10), _pick(s1, NS10),
                          False, 0, 0, _pick(n, 3))
        return subject_check(parts, _pick(tpos, 3), _pick(ti, NTI10), TSS[0])[0]


def why_subject(n, k0, a0, s0, k1, a1, s1, k2, a2, s2, tpos, ti):
    return subject_check(_mk_parts(k0, a0, s0, k1, a1, s1, k2, a2, s2, n), tpos, ti, TSS[0])[1]


# ------------------------------------------------------------------ C11

SEPVARS = [", ", "\x00", " (", "\t", "\u00a0", "  ", " ; ", ") ", "\u2003", "\x7f", "\u200b", "\n", " "]
DASHES = ["-", "–", "—", "‐", "−" if False else "―", "⁃"]
CASES = [str.lower, str.upper, str.title]
EXPRS11 = ["tomorrow 8pm", "friday morning", "monday 10:00 - 12:00", "march 3rd 2020", "heute abend", "9 - 5", "on the 31st",
           "12.03.2021 um 9 uhr", "saturday - sunday", "3 days", "übermorgen", "5. märz 2020", "nächsten freitag", "tomorrow #standup-9am"]
NE11 = len(EXPRS11)


def norm_check(expr, sep, dash, case, lead, trail, ts):
    base = _parse(expr, ts)
    v = case(expr).replace(" - ", " " + dash + " ").replace("#standup-", "#standup" + dash).replace("#STANDUP-", "#STANDUP" + dash).replace("#Standup-", "#Standup" + dash).replace(" ", sep)
    v = lead + v + trail
    var = _parse(v, ts)
    if _val(var.resolution) != _val(base.resolution):
        return False, "%r -> %s but %r -> %s" % (expr, base.resolution, v, var.resolution)
    p1 = C._preprocess_string(v)
    if C._preprocess_string(p1) != p1:
        return False, "normalisation not idempotent on %r" % (v,)
    return True, ""


NSEP11 = int(os.environ.get("VQ_NSEP11", "7"))
NDASH11 = int(os.environ.get("VQ_NDASH11", "3"))


def ob_norm(ei: int, si: int, di: int, ci: int, ends: bool) -> bool:
    """
    pre: 0 <= ei < NE11 and 0 <= si < NSEP11 and 0 <= di < NDASH11 and 0 <= ci < 3
    post: _
    """
    with NoTracing():
        e = EXPRS11[_pick(ei, NE11)]
        s_ = _pick(si, NSEP11)
        d_ = _pick(di, NDASH11) if "-" in e else 0
        en = bool(_pick(ends, 2))
        return norm_check(e, SEPVARS[s_], DASHES[d_], CASES[_pick(ci, 3)], SEPVARS[s_] if en and SEPVARS[s_] != " " else "",
                          SEPVARS[s_] if en and SEPVARS[s_] != " " else "", TSS[0])[0]


def why_norm(ei, si, di, ci, ends):
    e = EXPRS11[ei]
    d_ = di if "-" in e else 0
    x = SEPVARS[si] if ends and SEPVARS[si] != " " else ""
    return norm_check(e, SEPVARS[si], DASHES[d_], CASES[ci], x, x, TSS[0])[1]
