"""./vq-check <property-id> [--tier quick|thorough] | --replay <file>"""
import argparse
import importlib
import json
import os
import sys
import time


def main() -> int:
    ap = argparse.ArgumentParser()
    ap.add_argument("prop", nargs="?")
    ap.add_argument("--tier", default=None)
    ap.add_argument("--replay", default=None)
    ap.add_argument("--only", default=None, help="substring filter on obligation names (debugging; the evidence says so)")
    a = ap.parse_args()
    if a.replay:
        from . import replay
        return replay.main(a.replay)
    tier = os.environ.get("VERIF_TIER") or a.tier or "quick"
    if tier not in ("quick", "thorough"):
        tier = "quick"
    mod = importlib.import_module("vq.props." + a.prop)
    t0 = time.time()
    return mod.run(tier, t0, a.only)


if __name__ == "__main__":
    sys.exit(main())
