#!/bin/bash
cd /verif
while pgrep -f "tools/mutbatch2.sh" > /dev/null; do sleep 20; done
cat /tmp/mutrun/cmds3.txt | xargs -P 2 -I{} sh -c "{}" >> /tmp/mutrun/batch3.log 2>&1
