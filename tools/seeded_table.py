#!/usr/bin/env python3
"""markdown table of seeded changes and which check caught them (from /verif/seeded/*/meta.json)"""
import json, glob, os, re
rows = []
for mj in sorted(glob.glob("/verif/seeded/*/meta.json")):
    m = json.load(open(mj))
    name = os.path.basename(os.path.dirname(mj))
    ch = m.get("checks") or {}
    verdict = ", ".join("%s: %s" % (p, {0: "MISSED (exit 0)", 1: "caught (exit 1)", 3: "inconclusive (exit 3)"}.get(v["exit"], v["exit"])) for p, v in ch.items())
    first = ""
    for p, v in ch.items():
        for l in v.get("lines", []):
            if l.startswith("VIOLATION"):
                first = "replay-confirmed violation"
                break
    needs = (m.get("needs_to_manifest") or "").strip().split("\n")
    rows.append((name, m["property"], m["origin"], verdict))
print("| seeded change | property | origin | quick check of that property |")
print("|---|---|---|---|")
for r in rows:
    print("| %s | %s | %s | %s |" % r)
