#!/usr/bin/env python3
"""Try one seeded change:  tools/mutant.py <name> <prop> <diff> <demo.py> [more props...]
1. confirm it in a scratch worktree of /repo's HEAD: applies, 70 baseline tests pass, demo fails with it and passes without;
2. run ./vq-check <prop> (quick) against that worktree (VQ_REPO) with a scratch output dir;
3. print a one-line verdict and write /tmp/mutrun/<name>/result.json."""
import json, os, shutil, subprocess, sys, time
name, prop, diff, demo = sys.argv[1:5]
props = [prop] + sys.argv[5:]
wt = "/tmp/mutrun/%s/wt" % name
out = "/tmp/mutrun/%s/out" % name
shutil.rmtree("/tmp/mutrun/%s" % name, ignore_errors=True)
os.makedirs(out)
subprocess.run(["git", "-C", "/repo", "worktree", "prune"], capture_output=True)
r = subprocess.run(["git", "-C", "/repo", "worktree", "add", "-q", "--detach", wt, "HEAD"], capture_output=True, text=True)
res = {"name": name, "property": prop, "diff": diff}
def sh(cmd, **kw):
    return subprocess.run(cmd, capture_output=True, text=True, **kw)
try:
    if demo != "-":
        shutil.copy(demo, os.path.join(wt, "DEMO.py"))
        d0 = sh(["/venv/bin/python", "DEMO.py"], cwd=wt)
        res["demo_clean_exit"] = d0.returncode
    a = sh(["git", "apply", "--3way", diff], cwd=wt) if False else sh(["git", "apply", diff], cwd=wt)
    res["applies"] = a.returncode == 0
    if a.returncode != 0:
        res["apply_err"] = a.stderr[-300:]
    else:
        if demo != "-":
            d1 = sh(["/venv/bin/python", "DEMO.py"], cwd=wt)
            res["demo_mutant_exit"] = d1.returncode
            res["demo_mutant_tail"] = (d1.stdout + d1.stderr)[-300:]
        b = sh(["/verif/tools/baseline.py", wt])
        res["baseline_ok"] = b.returncode == 0
        res["checks"] = {}
        for p in props:
            t = time.time()
            env = dict(os.environ, VQ_REPO=wt, VQ_OUT=out)
            c = sh(["/verif/vq-check", p, "--tier", "quick"], cwd="/verif", env=env)
            lines = [l for l in c.stdout.split("\n") if l.startswith(("VIOLATION", "INCONCLUSIVE", p + ":"))]
            res["checks"][p] = {"exit": c.returncode, "seconds": round(time.time() - t), "lines": lines[:6]}
finally:
    sh(["git", "-C", "/repo", "worktree", "remove", "--force", wt])
json.dump(res, open("/tmp/mutrun/%s/result.json" % name, "w"), indent=1)
print(name, "applies", res.get("applies"), "baseline", res.get("baseline_ok"), "demo clean/mutant", res.get("demo_clean_exit"), res.get("demo_mutant_exit"),
      {p: v["exit"] for p, v in res.get("checks", {}).items()})
