#!/usr/bin/env python3
"""Run the pinned test suite of /repo (or the tree given as argv[1]) and compare with
/root/.vp/BASELINE.json's stable_pass list.  Exit 0 iff all 70 stable tests pass."""
import json, subprocess, sys, tempfile, os
import xml.etree.ElementTree as ET
repo = sys.argv[1] if len(sys.argv) > 1 else "/repo"
base = json.load(open("/root/.vp/BASELINE.json"))
with tempfile.TemporaryDirectory() as td:
    x = os.path.join(td, "j.xml")
    subprocess.run(["/venv/bin/python", "-m", "pytest", "-ra", "-q", "-p", "no:cacheprovider", "--timeout=900",
                    "--continue-on-collection-errors", "--junitxml=" + x], cwd=repo, capture_output=True, text=True)
    passed = set()
    for tc in ET.parse(x).getroot().iter("testcase"):
        if not any(c.tag in ("failure", "error", "skipped") for c in tc):
            passed.add("{}::{}".format(tc.get("classname"), tc.get("name")))
missing = [t for t in base["stable_pass"] if t not in passed]
print("passed {} ; stable missing: {}".format(len(passed), missing))
sys.exit(1 if missing else 0)
