#!/bin/bash
# run every quick check once, sequentially; log exit code and wall time
cd /verif
for i in 01 02 03 04 05 06 07 08 09 10 11 12 13 14 15 16 17 18 19 20; do
  s=$(date +%s)
  ./vq-check C$i --tier ${1:-quick} > /tmp/t1/all_C$i.log 2>&1
  e=$?
  echo "C$i exit=$e wall=$(( $(date +%s) - s ))s  $(tail -n 1 /tmp/t1/all_C$i.log)"
done
