#!/bin/bash
cd /verif
while pgrep -f "tools/mutbatch3.sh" > /dev/null; do sleep 20; done
cat /tmp/mutrun/cmds4.txt | xargs -P 1 -I{} sh -c "{}" >> /tmp/mutrun/batch4.log 2>&1
