#!/usr/bin/env python3
"""Collect confirmed seeded changes into /verif/seeded/<id>/ (patch.diff, demo.py, meta.json)."""
import json, os, re, shutil, glob
out = "/verif/seeded"
rows = []
for rj in sorted(glob.glob("/tmp/mutrun/*/result.json")):
    r = json.load(open(rj))
    name = r["name"]
    if name.startswith("REV"):
        kind = "revert-of-fix"
    else:
        kind = "sub-agent"
    ok = r.get("applies") and r.get("baseline_ok") and (kind == "revert-of-fix" or (r.get("demo_clean_exit") == 0 and r.get("demo_mutant_exit") not in (0, None)))
    if not ok:
        rows.append((name, "NOT CONFIRMED", r))
        continue
    d = os.path.join(out, name)
    os.makedirs(d, exist_ok=True)
    shutil.copy(r["diff"], os.path.join(d, "patch.diff"))
    needs = ""
    if kind == "sub-agent":
        src = os.path.dirname(r["diff"])
        v = name[-1]
        shutil.copy(os.path.join(src, "DEMO_%s.py" % v), os.path.join(d, "demo.py"))
        notes = open(os.path.join(src, "NOTES.md")).read() if os.path.exists(os.path.join(src, "NOTES.md")) else ""
        needs = notes
    meta = {"property": r["property"], "origin": kind, "needs_to_manifest": needs[:3000],
            "confirmed": {"applies_to_HEAD": True, "baseline_70_tests_pass": True, "demo_exit_clean": r.get("demo_clean_exit"), "demo_exit_with_change": r.get("demo_mutant_exit"),
                          "demo_output_tail": r.get("demo_mutant_tail")},
            "ran": "tools/mutant.py: scratch worktree of /repo HEAD, git apply, pytest baseline, demo with/without the change, then ./vq-check <property> --tier quick with VQ_REPO pointing at the worktree",
            "checks": r.get("checks")}
    json.dump(meta, open(os.path.join(d, "meta.json"), "w"), indent=1)
    rows.append((name, {p: v["exit"] for p, v in r.get("checks", {}).items()}, None))
for row in rows:
    print(row[0], row[1])
