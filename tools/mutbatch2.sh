#!/bin/bash
# wait for batch 1 style runs to end, then run the command list 2 at a time
cd /verif
while pgrep -f "tools/mutbatch.sh" > /dev/null; do sleep 20; done
cat /tmp/mutrun/cmds2.txt | xargs -P 2 -I{} sh -c "{}" >> /tmp/mutrun/batch2.log 2>&1
