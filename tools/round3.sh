#!/bin/sh
# intake of one third-round sub-agent change: tools/round3.sh Cxx  (reads /tmp/sa/Cxx/{patch.diff,DEMO.py,NOTES.txt})
p=$1
mkdir -p /tmp/mut3/$p
cp /tmp/sa/$p/patch.diff /tmp/mut3/$p/A.diff
cp /tmp/sa/$p/DEMO.py /tmp/mut3/$p/DEMO_A.py
cp /tmp/sa/$p/NOTES.txt /tmp/mut3/$p/NOTES.md 2>/dev/null
git -C /repo worktree remove --force /tmp/sa/$p
exec /verif/tools/mutant.py R3${p}A $p /tmp/mut3/$p/A.diff /tmp/mut3/$p/DEMO_A.py
