#!/bin/bash
# evaluate every delivered seeded change not evaluated yet, 3 at a time
cd /verif
for d in /tmp/mut/C*/; do
  id=$(basename $d)
  for v in A B; do
    if [ -f $d/$v.diff ] && [ -f $d/DEMO_$v.py ] && [ ! -f /tmp/mutrun/$id$v/result.json ] && [ ! -f /tmp/mutrun/$id$v.lock ]; then
      mkdir -p /tmp/mutrun; touch /tmp/mutrun/$id$v.lock
      echo "./tools/mutant.py $id$v $id $d/$v.diff $d/DEMO_$v.py"
    fi
  done
done | xargs -P 3 -I{} sh -c "{}" >> /tmp/mutrun/batch.log 2>&1
