"""throwaway: AST -> z3 Re (assertions dropped), a few language-level queries"""
import z3, time, sys
from rx import parse
import ctparse.ctparse
from ctparse.rule import _regex
def L(s): return z3.Re(z3.StringVal(s))
EPS = L("")
WS = z3.Union(*[L(c) for c in " \t\n\r\x0b\x0c"])
DIG = z3.Range("0", "9")
WORD = z3.Union(z3.Range("a","z"), z3.Range("A","Z"), DIG, L("_"), z3.Range("À","ÿ"))
ANY = z3.AllChar(z3.ReSort(z3.StringSort()))
def ch(c, ci):
    if ci and c.lower() != c.upper() and len(c.lower()) == 1 and len(c.upper()) == 1:
        return z3.Union(L(c.lower()), L(c.upper()))
    return L(c)
def cat(xs):
    xs = [x for x in xs]
    if not xs: return EPS
    return xs[0] if len(xs) == 1 else z3.Concat(*xs)
def uni(xs):
    return xs[0] if len(xs) == 1 else z3.Union(*xs)
class T:
    def __init__(s): s.defs = {}; s.ci = False
    def tr(s, n):
        k = n[0]
        if k == "seq":
            out = []
            for x in n[1]:
                r = s.tr(x)
                if r is not None: out.append(r)
            return cat(out)
        if k == "alt": return uni([s.tr(x) for x in n[1]])
        if k == "grp":
            r = s.tr(n[2])
            if n[1]: s.defs[n[1]] = r
            return r
        if k == "define": s.tr(n[1]); return None
        if k == "flag": s.ci = True; return None
        if k == "call": return s.defs[n[1]]
        if k in ("nla", "nlb"): return None
        if k == "esc":
            return {"d": DIG, "s": WS, "w": WORD, "b": None}[n[1]]
        if k == "chr": return ch(n[1], s.ci)
        if k == "any": return ANY
        if k == "cls":
            parts = []
            for it in n[2]:
                if it[0] == "range": parts.append(z3.Range(it[1][1], it[2][1]))
                elif it[0] == "esc": parts.append({"d": DIG, "s": WS, "w": WORD}[it[1]])
                else: parts.append(ch(it[1], s.ci))
            r = uni(parts)
            return z3.Intersect(ANY, z3.Complement(r)) if n[1] else r
        if k == "opt": return z3.Option(s.tr(n[1]))
        if k == "star": return z3.Star(s.tr(n[1]))
        if k == "plus": return z3.Plus(s.tr(n[1]))
        raise ValueError(k)
res = {}
for k, rr in _regex.items():
    t = T(); res[k] = t.tr(parse(rr.pattern))
x = z3.String("x")
def q(f, to=20000):
    s = z3.Solver(); s.set("timeout", to); s.add(f); t = time.time(); r = s.check()
    return str(r), round(time.time() - t, 2), (s.model()[x] if str(r) == "sat" else None)
t0 = time.time()
print("EPS:", [k for k in res if q(z3.InRe(z3.StringVal(""), res[k]))[0] != "unsat"])
trail = []
SIG = z3.Star(ANY)
for k in res:
    r = q(z3.InRe(x, z3.Intersect(res[k], z3.Concat(SIG, WS))))
    if r[0] != "unsat": trail.append((k, r[0], r[2]))
print("TRAIL:", trail, round(time.time() - t0, 1))
# strongly inert words: contain no core match of any pattern, no whitespace
allp = uni(list(res.values()))
t0 = time.time()
w = z3.String("w"); w1 = z3.String("w1"); w2 = z3.String("w2"); e = z3.String("e")
NOWS = z3.Star(z3.Intersect(ANY, z3.Complement(WS)))
LET = z3.Plus(z3.Range("a", "z"))
inert = z3.InRe(w, z3.Intersect(LET, z3.Complement(z3.Concat(SIG, allp, SIG))))
for k in (128, 127, 137, 107, 102):
    s = z3.Solver(); s.set("timeout", 120000)
    s.add(inert, w == z3.Concat(w1, w2), z3.Length(w1) >= 1, z3.Length(w) <= 6, z3.Length(e) <= 6, z3.Length(e) >= 1)
    s.add(z3.InRe(z3.Concat(e, z3.StringVal(" "), w1), res[k]))
    t = time.time(); r = s.check()
    print("EXT", k, r, round(time.time() - t, 1), (s.model()[e], s.model()[w], s.model()[w1]) if str(r) == "sat" else "")
