import z3, time
from z3 import Re, Union, Concat, Option, Star, Plus, Range, InRe, String, StringVal, Length, Solver, And, Or, Not, StrToInt, Complement, Intersect, Full, ReSort, StringSort, AllChar
def lit(s): return Re(StringVal(s))
def ci(s):
    # case-insensitive literal
    parts=[]
    for ch in s:
        if ch.lower()!=ch.upper():
            parts.append(Union(lit(ch.lower()), lit(ch.upper())))
        else: parts.append(lit(ch))
    return parts[0] if len(parts)==1 else Concat(*parts)
D=Range("0","9")
hour=Union(Concat(Option(Range("0","1")),D), Concat(lit("2"),Range("0","3")))
minute=Concat(Range("0","5"),D)
ws=Union(lit(" "),lit("\t"))
sep=Union(lit(":"),ci("uhr"),ci("h"),lit("."))
clock=Union(ci("uhr"),ci("h"))
ampm=Concat(Star(ws),Union(ci("a"),ci("p")),Option(lit(".")),ci("m"),Option(lit(".")))
# decomposition variables
H,S_,M,W,C,A=[String(n) for n in "H S M W C A".split()]
H2,S2,M2,W2,C2,A2=[String(n+"2") for n in "H S M W C A".split()]
def parse(H,S_,M,W,C,A):
    return And(InRe(H,hour), Or(And(S_=="",M==""), And(InRe(S_,sep),InRe(M,minute))), InRe(W,Star(ws)), Or(C=="",InRe(C,clock)), Or(A=="",InRe(A,ampm)))
s=Solver()
s.add(parse(H,S_,M,W,C,A), parse(H2,S2,M2,W2,C2,A2))
s.add(z3.Concat(H,S_,M,W,C,A)==z3.Concat(H2,S2,M2,W2,C2,A2))
s.add(Or(H!=H2, M!=M2, A!=A2, C!=C2))
t=time.time(); r=s.check(); print("ambiguity:", r, time.time()-t)
if str(r)=="sat":
    m=s.model(); print([m[x] for x in (H,S_,M,W,C,A)], [m[x] for x in (H2,S2,M2,W2,C2,A2)])
s=Solver()
s.add(InRe(H,hour), Or(StrToInt(H)<0, StrToInt(H)>23))
t=time.time(); print("range:", s.check(), time.time()-t)
