from typing import List
import sys
from datetime import datetime
import ctparse.ctparse
C = sys.modules["ctparse.ctparse"]
T = sys.modules["ctparse.timers"]
from ctparse.scorer import DummyScorer

TXT = "tomorrow 8pm"
TS = datetime(2020, 1, 1, 7, 0)

def _run(clock_vals, timeout):
    it = iter(clock_vals)
    last = [0.0]
    def fake():
        try:
            last[0] = next(it)
        except StopIteration:
            pass
        return last[0]
    old = T.perf_counter
    T.perf_counter = fake
    try:
        out = [(repr(p.resolution), p.production) for p in C.ctparse_gen(TXT, TS, timeout=timeout, scorer=DummyScorer(), max_stack_depth=0)]
    finally:
        T.perf_counter = old
    return out

FULL = _run([], 0)

def chk_prefix(k: int) -> bool:
    """
    pre: 0 <= k <= 60
    post: _
    """
    # clock jumps past the deadline at the k-th read
    vals = [0.0] * k + [10.0]
    out = _run(vals, 1.0)
    return out == FULL[:len(out)]

def chk_prefix_sym(deltas: List[float]) -> bool:
    """
    pre: len(deltas) == 8
    pre: all(0.0 <= d <= 2.0 for d in deltas)
    post: _
    """
    vals = []
    acc = 0.0
    for d in deltas:
        acc = acc + d
        vals.append(acc)
    out = _run(vals, 1.0)
    return out == FULL[:len(out)]
