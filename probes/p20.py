import toy
import ctparse.types as TY
from crosshair.tracers import NoTracing
def _h(self):
    with NoTracing():
        return hash(tuple(getattr(self, a) for a in self._attrs))
TY.Artifact.__hash__ = _h
def chk2(v0: int, v1: int, v2: int) -> bool:
    """
    pre: 0 <= v0 <= 2 and 0 <= v1 <= 2 and 0 <= v2 <= 2
    post: _
    """
    return toy.run([v0, v1, v2]) == toy.FULL
