import sys
from typing import List
from datetime import datetime
import ctparse.ctparse
C = sys.modules["ctparse.ctparse"]
PP = sys.modules["ctparse.partial_parse"]
RU = sys.modules["ctparse.rule"]
from ctparse.scorer import Scorer
from ctparse.types import Artifact, Time, RegexMatch

class FakeM:
    def __init__(self, t): self.t = t
    def captures(self): return [self.t]
def FRM(id, a, b, text):
    self = RegexMatch.__new__(RegexMatch)
    Artifact.__init__(self)
    self._attrs = ["mstart", "mend", "id"]
    self.key = "R%d" % id; self.id = id; self.match = FakeM(text)
    self.mstart = a; self.mend = b; self._text = text
    return self

class A(Artifact):
    def __init__(self, v):
        super().__init__(); self._attrs = ["v"]; self.v = v
    def __str__(self): return str(self.v)

def mk_rules():
    reg = {}
    def add(name, pats, f):
        def wrapper(ts, *args):
            res = f(ts, *args)
            if res is not None: res.update_span(*args)
            return res
        reg[name] = (wrapper, pats)
    add("r1", [RU.regex_match(100)], lambda ts, m: A(1))
    add("r2", [RU.regex_match(101)], lambda ts, m: A(2))
    add("r3", [RU.dimension(A), RU.dimension(A)], lambda ts, a, b: A(a.v * 10 + b.v))
    add("r4", [RU.dimension(A)], lambda ts, a: A(a.v + 5) if a.v < 5 else None)
    return reg

TXT = "ab cd"
def fake_match_regex(txt, regexes):
    return [FRM(100, 0, 2, "ab"), FRM(101, 3, 5, "cd"), FRM(100, 3, 5, "cd")]

class SF:
    """score wrapper: arithmetic/compare delegate to the (symbolic) value, formatting is inert"""
    __slots__ = ("v",)
    def __init__(self, v): self.v = v
    def __lt__(self, o): return self.v < (o.v if isinstance(o, SF) else o)
    def __gt__(self, o): return self.v > (o.v if isinstance(o, SF) else o)
    def __le__(self, o): return self.v <= (o.v if isinstance(o, SF) else o)
    def __ge__(self, o): return self.v >= (o.v if isinstance(o, SF) else o)
    def __eq__(self, o): return self.v == (o.v if isinstance(o, SF) else o)
    def __hash__(self): return 0
    def __sub__(self, o): return SF(self.v - (o.v if isinstance(o, SF) else o))
    def __add__(self, o): return SF(self.v + (o.v if isinstance(o, SF) else o))
    def __format__(self, spec): return "?"
    def __repr__(self): return "SF"

class SymScorer(Scorer):
    def __init__(self, vals): self.vals = vals; self.i = 0
    def _n(self):
        v = self.vals[self.i] if self.i < len(self.vals) else 0
        self.i += 1
        return SF(v)
    def score(self, txt, ts, pp): return self._n()
    def score_final(self, txt, ts, pp, prod): return self._n()

def run(vals):
    old = (C._match_regex, PP.global_rules)
    C._match_regex = fake_match_regex; PP.global_rules = mk_rules()
    try:
        return sorted(set(p.resolution.v for p in C._ctparse(TXT, datetime(2020,1,1), 0, 1.0, 0, SymScorer(vals))))
    finally:
        C._match_regex, PP.global_rules = old

def chk(v0: int, v1: int, v2: int, v3: int, v4: int) -> bool:
    """
    pre: 0 <= v0 <= 2 and 0 <= v1 <= 2 and 0 <= v2 <= 2 and 0 <= v3 <= 2 and 0 <= v4 <= 2
    post: _
    """
    return run([v0, v1, v2, v3, v4]) == FULL
FULL = run([])
