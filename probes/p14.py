import sys
from typing import List
from datetime import datetime
import ctparse.ctparse
C = sys.modules["ctparse.ctparse"]
from ctparse.scorer import Scorer, DummyScorer

TXT = "8pm"
TS = datetime(2020, 1, 1, 7, 0)

class SymScorer(Scorer):
    def __init__(self, vals):
        self.vals = vals; self.i = 0
    def _next(self):
        if self.i < len(self.vals):
            v = self.vals[self.i]; self.i += 1; return v
        return 0.0
    def score(self, txt, ts, pp): return self._next()
    def score_final(self, txt, ts, pp, prod): return self._next()

def _vals(sc):
    return sorted(set(repr(p.resolution) for p in C.ctparse_gen(TXT, TS, timeout=0, scorer=sc, max_stack_depth=0, latent_time=False)))

FULL = _vals(DummyScorer())

def chk_complete(scores: List[float]) -> bool:
    """
    pre: len(scores) == 6
    pre: all(s == s and -10.0 <= s <= 10.0 for s in scores)
    post: _
    """
    return _vals(SymScorer(scores)) == FULL
