from p9d import *
LO, HI = 0, 60
def chk_stack_part(ci: int, k0: bool, k1: bool, k2: bool, k3: bool, k4: bool) -> bool:
    """
    pre: LO <= ci < HI
    post: _
    """
    return chk_stack(ci, k0, k1, k2, k3, k4)
