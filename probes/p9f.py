import sys, itertools
import ctparse.ctparse
C = sys.modules["ctparse.ctparse"]
class FakeTxt:
    def __init__(self, E): self.E = E
    def __getitem__(self, sl): return (self, sl.start, sl.stop)
class _WS:
    def fullmatch(self, tok):
        t, a, b = tok            # a = mend of match i = 2i+1, b = mstart of match j = 2j
        return True if t.E[(a - 1) // 2][b // 2] else None
class _RegexShim:
    VERSION1 = 0
    def compile(self, pat, flags=0): return _WS()
class FM:
    def __init__(self, i): self.mstart = 2 * i; self.mend = 2 * i + 1; self.id = 100 + i; self.i = i
    def __repr__(self): return "m%d" % self.i
def chk_graph(n: int, e01: bool, e02: bool, e03: bool, e12: bool, e13: bool, e23: bool) -> bool:
    """
    pre: 1 <= n <= 4
    post: _
    """
    E = [[False, e01, e02, e03], [False, False, e12, e13], [False, False, False, e23], [False] * 4]
    ms = [FM(i) for i in range(n)]
    old = C.regex; C.regex = _RegexShim()
    try:
        got = C._regex_stack(FakeTxt(E), ms)
    finally:
        C.regex = old
    exp = []
    for r in range(1, n + 1):
        for idx in itertools.combinations(range(n), r):
            if not all(E[idx[k]][idx[k + 1]] for k in range(r - 1)): continue
            if any(E[p][idx[0]] for p in range(idx[0])): continue
            if any(E[idx[-1]][q] for q in range(idx[-1] + 1, n)): continue
            exp.append(tuple(ms[k] for k in idx))
    return sorted(map(repr, got)) == sorted(map(repr, exp))
