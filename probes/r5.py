import toy, sys
from datetime import datetime
import ctparse.types as TY
from crosshair.tracers import NoTracing
def _h(self):
    with NoTracing():
        return hash(tuple(getattr(self, a) for a in self._attrs))
TY.Artifact.__hash__ = _h
C = toy.C; PP = toy.PP
def gen(vals):
    return C._ctparse(toy.TXT, datetime(2020, 1, 1), 0, 1.0, 0, toy.SymScorer(vals))
def solo(vals):
    old = (C._match_regex, PP.global_rules); C._match_regex = toy.fake_match_regex; PP.global_rules = toy.mk_rules()
    try: return [(p.resolution.v, p.production) for p in gen(vals)]
    finally: C._match_regex, PP.global_rules = old
SA = solo([0, 0, 1]); SB = solo([1, 0, 0])
def interleave(s0: bool, s1: bool, s2: bool, s3: bool, s4: bool, s5: bool) -> bool:
    """
    post: _
    """
    old = (C._match_regex, PP.global_rules); C._match_regex = toy.fake_match_regex; PP.global_rules = toy.mk_rules()
    try:
        ga, gb = gen([0, 0, 1]), gen([1, 0, 0]); oa, ob = [], []; da = db = False
        for s in (s0, s1, s2, s3, s4, s5):
            if s and not da:
                try: p = next(ga); oa.append((p.resolution.v, p.production))
                except StopIteration: da = True
            elif not db:
                try: p = next(gb); ob.append((p.resolution.v, p.production))
                except StopIteration: db = True
        for p in ga: oa.append((p.resolution.v, p.production))
        for p in gb: ob.append((p.resolution.v, p.production))
    finally:
        C._match_regex, PP.global_rules = old
    return oa == SA and ob == SB
