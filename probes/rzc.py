"""throwaway: contextual translation Match(before, m, after) with look-arounds, \\b and group capture"""
import z3, time, itertools
from rx import parse
from rz import T as PlainT, WS, DIG, WORD, ANY, EPS, L, uni, cat
import ctparse.ctparse
from ctparse.rule import _regex
SIG = z3.Star(ANY)
cnt = itertools.count()
def fresh(p="v"): return z3.String("%s%d" % (p, next(cnt)))
def has_assert(n):
    k = n[0]
    if k in ("nla", "nlb"): return True
    if k == "esc" and n[1] == "b": return True
    if k in ("seq", "alt"): return any(has_assert(x) for x in n[1])
    if k == "grp": return has_assert(n[2])
    if k in ("opt", "star", "plus"): return has_assert(n[1])
    return False
def first_is_word(s): return z3.InRe(s, z3.Concat(WORD, SIG))
def last_is_word(s): return z3.InRe(s, z3.Concat(SIG, WORD))
class CT:
    def __init__(self, plain): self.plain = plain; self.groups = {}
    def m(self, n, before, cur, after):
        """formula: node n matches `cur` with context before/after; named groups recorded"""
        k = n[0]
        if not has_assert(n) and not self.has_named(n):
            r = self.plain.tr(n)
            return cur == z3.StringVal("") if r is None else z3.InRe(cur, r)
        if k == "seq":
            items = [x for x in n[1] if x[0] not in ("define", "flag")]
            for x in n[1]:
                if x[0] in ("define", "flag"): self.plain.tr(x)
            if not items: return cur == z3.StringVal("")
            parts = [fresh() for _ in items]
            f = [cur == z3.Concat(*parts) if len(parts) > 1 else cur == parts[0]]
            for i, x in enumerate(items):
                b = z3.Concat(before, *parts[:i]) if i else before
                a = z3.Concat(*parts[i + 1:], after) if i + 1 < len(parts) else after
                f.append(self.m(x, b, parts[i], a))
            return z3.And(*f)
        if k == "alt": return z3.Or(*[self.m(x, before, cur, after) for x in n[1]])
        if k == "grp":
            f = self.m(n[2], before, cur, after)
            if n[1]:
                g = self.groups.setdefault(n[1], (fresh("g_" + n[1]), z3.Bool("has_%s_%d" % (n[1], next(cnt)))))
                return z3.And(f, g[0] == cur, g[1])
            return f
        if k == "opt": return z3.Or(cur == z3.StringVal(""), self.m(n[1], before, cur, after))
        if k == "nla": return z3.And(cur == z3.StringVal(""), z3.Not(z3.InRe(after, z3.Concat(self.plain.tr(n[1]), SIG))))
        if k == "nlb": return z3.And(cur == z3.StringVal(""), z3.Not(z3.InRe(before, z3.Concat(SIG, self.plain.tr(n[1])))))
        if k == "esc" and n[1] == "b": return z3.And(cur == z3.StringVal(""), z3.Xor(last_is_word(before), first_is_word(after)))
        raise ValueError("assertion under %s" % k)
    def has_named(self, n):
        k = n[0]
        if k == "grp": return bool(n[1]) or self.has_named(n[2])
        if k in ("seq", "alt"): return any(self.has_named(x) for x in n[1])
        if k in ("opt", "star", "plus"): return self.has_named(n[1])
        return False
def build(pid, tag=""):
    plain = PlainT(); ct = CT(plain)
    b, c, a = z3.String("b" + tag), z3.String("c" + tag), z3.String("a" + tag)
    f = ct.m(parse(_regex[pid].pattern), b, c, a)
    return f, b, c, a, ct.groups
def chk(fs, to=120000):
    s = z3.Solver(); s.set("timeout", to); s.add(*fs); t = time.time(); r = s.check()
    return str(r), round(time.time() - t, 1), (s.model() if str(r) == "sat" else None)
if __name__ == "__main__":
    # Q-a: DDMMYYYY value ambiguity
    f1, b1, c1, a1, g1 = build(126, "1"); f2, b2, c2, a2, g2 = build(126, "2")
    r = chk([f1, f2, b1 == b2, c1 == c2, a1 == a2, z3.Length(c1) <= 12, z3.Length(b1) <= 1, z3.Length(a1) <= 1,
             z3.Or(g1["day"][0] != g2["day"][0], g1["year"][0] != g2["year"][0])])
    print("UNAMB 126:", r[0], r[1], (r[2][c1], r[2][g1["day"][0]], r[2][g2["day"][0]], r[2][g1["year"][0]], r[2][g2["year"][0]]) if r[2] else "")
    # Q-c: HHMM: can a match be followed by a digit?  (must be unsat)
    f, b, c, a, g = build(128)
    r = chk([f, z3.InRe(a, z3.Concat(DIG, SIG)), z3.Length(c) <= 8, z3.Length(a) <= 2, z3.Length(b) <= 1]); print("128 followed by digit:", r[0], r[1])
    # Q-b: number word typo
    f, b, c, a, g = build(138)
    for w in ("siebenundzwanzig tage", "sechzehn tage", "einunddreißig tage", "vier tage", "twentyseven days"):
        r = chk([f, b == "", a == "", c == w]); print("138 %-24s" % w, r[0], r[1])
    # value lemma: hour group numeric range
    f, b, c, a, g = build(128)
    h = g["hour"][0]
    r = chk([f, z3.Length(c) <= 8, z3.Length(a) <= 1, z3.Length(b) <= 1, z3.Or(z3.StrToInt(h) < 0, z3.StrToInt(h) > 23)]); print("128 hour range:", r[0], r[1])
