from datetime import datetime, date
from ctparse.types import Time
from t1 import body, _mdays
Y = 2024
def latent_dow(mo: int, d: int, h: int, mi: int, s: int, dow: int) -> bool:
    """
    pre: 1 <= mo <= 12 and 1 <= d <= _mdays(Y, mo) and 0 <= h <= 23 and 0 <= mi <= 59 and 0 <= s <= 59 and 0 <= dow <= 6
    post: _
    """
    ts = datetime(Y, mo, d, h, mi, s)
    t = body("ruleLatentDOW")(ts, Time(DOW=dow))
    r = date(t.year, t.month, t.day)
    delta = r.toordinal() - ts.date().toordinal()
    return r.weekday() == dow and 1 <= delta <= 7
