import sys, z3, time
import ctparse.nb_estimator as NB
LOG = z3.Function("log", z3.RealSort(), z3.RealSort())
class S:
    """number backed by a z3 arithmetic term"""
    def __init__(self, t): self.t = t if z3.is_expr(t) else z3.RealVal(t)
    @staticmethod
    def of(x): return x if isinstance(x, S) else S(x)
    def __add__(self, o): return S(self.t + S.of(o).t)
    __radd__ = __add__
    def __sub__(self, o): return S(self.t - S.of(o).t)
    def __rsub__(self, o): return S(S.of(o).t - self.t)
    def __mul__(self, o): return S(self.t * S.of(o).t)
    __rmul__ = __mul__
    def __truediv__(self, o): return S(self.t / S.of(o).t)
def slog(x): return S(LOG(S.of(x).t))
NB.log = slog
# shape: vocabulary of 3, two positive docs, one negative doc, symbolic counts
V = 3
def doc(tag): return {i: S(z3.ToReal(z3.Int("%s_%d" % (tag, i)))) for i in range(V)}
X = [doc("p0"), doc("p1"), doc("n0")]; y = [1, 1, -1]
ll = NB.MultinomialNaiveBayes._construct_log_likelihood(X, y, 1.0)
# textbook: log(c_i + alpha) - log(sum_j (c_j + alpha))
def c(cls, i):
    docs = [X[k] for k in range(len(X)) if (y[k] == 1) == (cls == "positive_class")]
    return sum((d[i].t for d in docs), z3.RealVal(0))
s = z3.Solver()
for d in X:
    for v in d.values(): s.add(v.t >= 0)
bad = []
for cls in ("positive_class", "negative_class"):
    tot = sum((c(cls, j) + 1 for j in range(V)), z3.RealVal(0))
    for i in range(V):
        spec = LOG(c(cls, i) + 1) - LOG(tot)
        bad.append(ll[cls][i].t != spec)
s.add(z3.Or(*bad))
t = time.time(); print("NB-EQ:", s.check(), round(time.time() - t, 2))
# mutation sanity: wrong denominator
ll2 = ll["positive_class"][0].t
