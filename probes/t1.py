from datetime import datetime, date
from ctparse.types import Time
import ctparse.ctparse
from ctparse.rule import rules as REG
def body(name): return REG[name][0].__closure__[0].cell_contents
def _mdays(y: int, m: int) -> int:
    if m == 2:
        return 29 if (y % 4 == 0 and (y % 100 != 0 or y % 400 == 0)) else 28
    return 30 if m in (4, 6, 9, 11) else 31
def latent_dom(y: int, mo: int, d: int, h: int, mi: int, s: int, dom: int) -> bool:
    """
    pre: 2016 <= y <= 2043 and 1 <= mo <= 12 and 1 <= d <= _mdays(y, mo) and 0 <= h <= 23 and 0 <= mi <= 59 and 0 <= s <= 59
    pre: 1 <= dom <= 28
    post: _
    """
    ts = datetime(y, mo, d, h, mi, s)
    t = body("ruleLatentDOM")(ts, Time(day=dom))
    # spec without dateutil: next month-day `dom` strictly after today (dom <= 28 exists in every month)
    if dom > d:
        ey, em = y, mo
    elif mo < 12:
        ey, em = y, mo + 1
    else:
        ey, em = y + 1, 1
    return (t.year, t.month, t.day, t.hour, t.minute, t.DOW, t.POD) == (ey, em, dom, None, None, None, None)
def latent_doy(y: int, mo: int, d: int, h: int, mi: int, s: int, dd: int, dm: int) -> bool:
    """
    pre: 2016 <= y <= 2043 and 1 <= mo <= 12 and 1 <= d <= _mdays(y, mo) and 0 <= h <= 23 and 0 <= mi <= 59 and 0 <= s <= 59
    pre: 1 <= dm <= 12 and 1 <= dd <= 28
    post: _
    """
    ts = datetime(y, mo, d, h, mi, s)
    t = body("ruleLatentDOY")(ts, Time(month=dm, day=dd))
    ey = y if (dm, dd) >= (mo, d) else y + 1
    return (t.year, t.month, t.day) == (ey, dm, dd)
