from datetime import datetime
from ctparse.types import Time
from t1 import body, _mdays
Y, MO = 2024, 2
def latent_dom(d: int, h: int, mi: int, s: int, dom: int) -> bool:
    """
    pre: 1 <= d <= _mdays(Y, MO) and 0 <= h <= 23 and 0 <= mi <= 59 and 0 <= s <= 59
    pre: 1 <= dom <= 28
    post: _
    """
    ts = datetime(Y, MO, d, h, mi, s)
    t = body("ruleLatentDOM")(ts, Time(day=dom))
    if dom > d: ey, em = Y, MO
    elif MO < 12: ey, em = Y, MO + 1
    else: ey, em = Y + 1, 1
    return (t.year, t.month, t.day, t.hour, t.minute, t.DOW, t.POD) == (ey, em, dom, None, None, None, None)
def latent_doy(d: int, h: int, mi: int, s: int, dd: int, dm: int) -> bool:
    """
    pre: 1 <= d <= _mdays(Y, MO) and 0 <= h <= 23 and 0 <= mi <= 59 and 0 <= s <= 59
    pre: 1 <= dm <= 12 and 1 <= dd <= 28
    post: _
    """
    ts = datetime(Y, MO, d, h, mi, s)
    t = body("ruleLatentDOY")(ts, Time(month=dm, day=dd))
    ey = Y if (dm, dd) >= (MO, d) else Y + 1
    return (t.year, t.month, t.day) == (ey, dm, dd)
