import sys, itertools
import ctparse.ctparse
C = sys.modules["ctparse.ctparse"]

class FakeTxt:
    """stands for a text of length 5; slicing returns the (start, stop) pair, the separator stub decides from a blank table"""
    def __init__(self, blank): self.blank = blank
    def __getitem__(self, sl): return (self, sl.start, sl.stop)
class _WS:
    def fullmatch(self, tok):
        t, a, b = tok
        for k in range(5):
            if a <= k and k < b and not t.blank[k]:
                return None
        return True
class _RegexShim:
    VERSION1 = 0
    def compile(self, pat, flags=0):
        assert pat == r"\s*"
        return _WS()
class FM:
    def __init__(self, a, b, i): self.mstart = a; self.mend = b; self.id = i
    def __repr__(self): return "FM(%r,%r,%r)" % (self.mstart, self.mend, self.id)
def _adj(blank, m1, m2):
    if m2.mstart < m1.mend: return False
    return all(blank[k] for k in range(5) if m1.mend <= k < m2.mstart)
def _spec(blank, ms):
    n = len(ms); exp = []
    for r in range(1, n + 1):
        for idx in itertools.combinations(range(n), r):
            if not all(_adj(blank, ms[idx[k]], ms[idx[k+1]]) for k in range(r - 1)): continue
            if any(_adj(blank, ms[p], ms[idx[0]]) for p in range(idx[0])): continue
            if any(_adj(blank, ms[idx[-1]], ms[q]) for q in range(idx[-1] + 1, n)): continue
            exp.append(tuple(ms[k] for k in idx))
    return exp
def chk_stack(n: int, k0: bool, k1: bool, k2: bool, k3: bool, k4: bool, a0: int, b0: int, a1: int, b1: int, a2: int, b2: int) -> bool:
    """
    pre: 1 <= n <= 3
    pre: 0 <= a0 < b0 <= 5 and 0 <= a1 < b1 <= 5 and 0 <= a2 < b2 <= 5
    pre: (a0 < a1 or (a0 == a1 and b0 <= b1)) and (a1 < a2 or (a1 == a2 and b1 <= b2))
    post: _
    """
    blank = [k0, k1, k2, k3, k4]
    ms = [FM(a, b, 100 + k) for k, (a, b) in enumerate([(a0, b0), (a1, b1), (a2, b2)][:n])]
    old = C.regex; C.regex = _RegexShim()
    try:
        got = C._regex_stack(FakeTxt(blank), ms)
    finally:
        C.regex = old
    return sorted(map(repr, got)) == sorted(map(repr, _spec(blank, ms)))
