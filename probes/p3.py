from datetime import datetime, date, timedelta
from ctparse.time import rules as R
from ctparse.types import Time
import ctparse.ctparse

_tomorrow = R.ruleTomorrow.__closure__[0].cell_contents
_eom = R.ruleEOM.__closure__[0].cell_contents

def _mdays(y: int, m: int) -> int:
    if m == 2:
        return 29 if (y % 4 == 0 and (y % 100 != 0 or y % 400 == 0)) else 28
    if m in (4, 6, 9, 11):
        return 30
    return 31

def chk_tomorrow(y: int, mo: int, d: int, h: int, mi: int) -> bool:
    """
    pre: 2016 <= y <= 2043 and 1 <= mo <= 12 and 1 <= d <= _mdays(y, mo) and 0 <= h <= 23 and 0 <= mi <= 59
    post: _
    """
    ts = datetime(y, mo, d, h, mi)
    t = _tomorrow(ts, None)
    # spec: independent successor-day arithmetic
    if d < _mdays(y, mo):
        ey, em, ed = y, mo, d + 1
    elif mo < 12:
        ey, em, ed = y, mo + 1, 1
    else:
        ey, em, ed = y + 1, 1, 1
    return (t.year, t.month, t.day, t.hour, t.minute) == (ey, em, ed, None, None)

def chk_eom(y: int, mo: int, d: int, h: int, mi: int) -> bool:
    """
    pre: 2016 <= y <= 2043 and 1 <= mo <= 12 and 1 <= d <= _mdays(y, mo) and 0 <= h <= 23 and 0 <= mi <= 59
    post: _
    """
    ts = datetime(y, mo, d, h, mi)
    t = _eom(ts, None)
    return (t.year, t.month, t.day) == (y, mo, _mdays(y, mo))
