import struct, math
def f(x: int) -> bool:
    """
    pre: 0 <= x <= 100000
    post: _
    """
    b = struct.pack('i', x)
    return x != 77777

def g(x: int) -> bool:
    """
    pre: 1 <= x <= 100000
    post: _
    """
    y = math.log(x)
    return x != 77777
