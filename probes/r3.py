import sys
from typing import Optional
import ctparse.ctparse
import ctparse.types as TY
from ctparse.types import Time
def eq_time(y1: int, y2: int, h1: int, h2: int, a1: int, b1: int, a2: int, b2: int) -> bool:
    """
    pre: 0 <= y1 <= 9999 and 0 <= y2 <= 9999 and 0 <= h1 <= 23 and 0 <= h2 <= 23
    post: _
    """
    t1 = Time(year=y1, hour=h1); t1.mstart, t1.mend = a1, b1
    t2 = Time(year=y2, hour=h2); t2.mstart, t2.mend = a2, b2
    same = (y1 == y2 and h1 == h2)
    return (t1 == t2) == same
def hash_time(y1: int, y2: int, h1: int, h2: int, a1: int, b1: int, a2: int, b2: int) -> bool:
    """
    pre: 0 <= y1 <= 9999 and 0 <= y2 <= 9999 and 0 <= h1 <= 23 and 0 <= h2 <= 23
    post: _
    """
    t1 = Time(year=y1, hour=h1); t1.mstart, t1.mend = a1, b1
    t2 = Time(year=y2, hour=h2); t2.mstart, t2.mend = a2, b2
    TY.hash = lambda t: t          # hash as an uninterpreted (here: injective) function
    try:
        k1 = TY.Artifact.__hash__(t1); k2 = TY.Artifact.__hash__(t2)
    finally:
        del TY.hash
    return (not (t1 == t2)) or k1 == k2
