import sys
from datetime import datetime
import ctparse.ctparse
C = sys.modules["ctparse.ctparse"]
T = sys.modules["ctparse.timers"]
from ctparse.scorer import DummyScorer

TXT = "tomorrow 8pm"
TS = datetime(2020, 1, 1, 7, 0)

def _run(k, timeout):
    reads = [0]
    def fake():
        reads[0] += 1
        if reads[0] <= k:
            return 0.0
        return 10.0
    old = T.perf_counter
    T.perf_counter = fake
    try:
        out = [(repr(p.resolution), p.production) for p in C.ctparse_gen(TXT, TS, timeout=timeout, scorer=DummyScorer(), max_stack_depth=0)]
    finally:
        T.perf_counter = old
    return out, reads[0]

FULL, NREADS = _run(10**9, 0)

def chk_prefix(k: int) -> bool:
    """
    pre: 0 <= k <= 200
    post: _
    """
    out, _ = _run(k, 1.0)
    return out == FULL[:len(out)]
