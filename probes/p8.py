from typing import List, Tuple
from ctparse.count_vectorizer import CountVectorizer

def chk_ngrams(doc: List[int]) -> bool:
    """
    pre: len(doc) <= 5
    pre: all(0 <= t <= 2 for t in doc)
    post: _
    """
    toks = [("a", "b", "c")[t] for t in doc]
    got = CountVectorizer._create_ngrams((1, 3), [toks])[0]
    exp = []
    for n in (1, 2, 3):
        for i in range(len(toks) - n + 1):
            exp.append(" ".join(toks[i:i + n]))
    return sorted(got) == sorted(exp)
