# EQ / HASH / DATASET probes
import sys
from datetime import datetime
from typing import Optional
import ctparse.ctparse, ctparse.corpus
from ctparse.types import Time, Interval, Duration, DurationUnit
CO = sys.modules["ctparse.corpus"]
C = sys.modules["ctparse.ctparse"]
UNITS = list(DurationUnit)
def eq_time(y1: int, y2: int, h1: int, h2: int, a1: int, b1: int, a2: int, b2: int) -> bool:
    """
    pre: 0 <= y1 <= 9999 and 0 <= y2 <= 9999 and 0 <= h1 <= 23 and 0 <= h2 <= 23
    post: _
    """
    t1 = Time(year=y1, hour=h1); t1.mstart, t1.mend = a1, b1
    t2 = Time(year=y2, hour=h2); t2.mstart, t2.mend = a2, b2
    same = (y1 == y2 and h1 == h2)
    return ((t1 == t2) == same) and (not same or hash(t1) == hash(t2))
def eq_dur(v1: int, v2: int, u1: int, u2: int, a1: int, b1: int, a2: int, b2: int) -> bool:
    """
    pre: 0 <= v1 <= 10000 and 0 <= v2 <= 10000 and 0 <= u1 < 6 and 0 <= u2 < 6
    post: _
    """
    d1 = Duration(v1, UNITS[u1]); d1.mstart, d1.mend = a1, b1
    d2 = Duration(v2, UNITS[u2]); d2.mstart, d2.mend = a2, b2
    same = (v1 == v2 and u1 == u2)
    return (d1 == d2) == same
def dataset(n: int, l0: int, l1: int, g: int, v0: int, v1: int, a0: int, a1: int) -> bool:
    """
    pre: 0 <= n <= 2 and 1 <= l0 <= 3 and 1 <= l1 <= 3 and 0 <= g <= 23 and 0 <= v0 <= 23 and 0 <= v1 <= 23
    post: _
    """
    cands = []
    for k, (l, v, a) in enumerate([(l0, v0, a0), (l1, v1, a1)][:n]):
        t = Time(hour=v); t.mstart, t.mend = a, a + 1
        cands.append(C.CTParse(t, tuple("r%d" % i for i in range(l)), 0.0, "", []))
    def fake(*a, **k):
        for c in cands: yield c
    old = CO.ctparse_gen; CO.ctparse_gen = fake
    try:
        out = list(CO.make_partial_rule_dataset([CO.TimeParseEntry("x", datetime(2020, 1, 1), Time(hour=g))], scorer=None, timeout=0, max_stack_depth=0))
    finally:
        CO.ctparse_gen = old
    exp = []
    for c in cands:
        for i in range(1, len(c.production) + 1):
            exp.append(([str(p) for p in c.production[:i]], c.resolution.hour == g))
    return out == exp
