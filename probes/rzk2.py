"""throwaway: continuation-passing translation to a pure regex over  before MK1 cur MK2 after"""
import z3, time
from rx import parse
from rz import T as PlainT, WS, DIG, WORD, ANY, EPS, L, uni, cat, SIG
import ctparse.ctparse
from ctparse.rule import _regex
MK = "\u0001"; MKR = L(MK)
NOMK = z3.Star(z3.Intersect(ANY, z3.Complement(MKR)))
NONWORD = z3.Intersect(ANY, z3.Complement(z3.Union(WORD, MKR)))
def starts_unmarked(X):
    """strings (possibly containing one marker) whose marker-erased form starts with a string of X;
    X restricted to: union of single chars / short literals / \\s*lit  -> insert optional marker between atoms"""
    return X  # filled per node by ins_marker
class K:
    def __init__(self): self.plain = PlainT()
    def ins(self, n):
        """regex for node n with an optional marker allowed at any atom boundary (for look-ahead bodies)"""
        k = n[0]
        om = z3.Option(MKR)
        if k == "seq": return cat([om] + [z3.Concat(self.ins(x), om) for x in n[1]])
        if k == "alt": return uni([self.ins(x) for x in n[1]])
        if k == "grp": return self.ins(n[2])
        if k in ("star",): return z3.Star(z3.Concat(self.ins(n[1]), om))
        if k in ("opt",): return z3.Option(self.ins(n[1]))
        t = self.plain.tr(n)
        return om if t is None else z3.Concat(om, t, om)
    def r(self, n, Kc):
        k = n[0]
        if k == "seq":
            out = Kc
            for x in reversed(n[1]):
                if x[0] in ("define", "flag"): continue
                out = self.r(x, out)
            return out
        if k == "alt": return uni([self.r(x, Kc) for x in n[1]])
        if k == "grp":
            return self.r(n[2], Kc)
        if k == "opt": return z3.Union(Kc, self.r(n[1], Kc))
        if k == "nla": return z3.Intersect(Kc, z3.Complement(z3.Concat(self.ins(n[1]), SIG)))
        if k == "esc" and n[1] == "b":   # preceded by a word char (checked statically elsewhere)
            return z3.Intersect(Kc, z3.Union(z3.Concat(z3.Option(MKR), NONWORD, SIG), MKR, z3.Concat(MKR, NONWORD, SIG)))
        if k == "nlb": raise ValueError("look-behind not at head")
        t = self.plain.tr(n)
        return Kc if t is None else z3.Concat(t, Kc)
def marked(pid):
    ast = parse(_regex[pid].pattern)
    k = K()
    items = ast[1]
    for x in items:
        if x[0] in ("define", "flag"): k.plain.tr(x)
    body = [x for x in items if x[0] not in ("define", "flag")]
    assert len(body) == 1 and body[0][0] == "grp"
    inner = body[0][2]
    if inner[0] == "seq": seq = list(inner[1])
    else: seq = [inner]
    lb = NOMK
    if seq and seq[0][0] == "nlb":
        lb = z3.Intersect(NOMK, z3.Complement(z3.Concat(SIG, k.plain.tr(seq[0][1])))); seq = seq[1:]
    tail = z3.Concat(MKR, NOMK)
    return z3.Concat(lb, MKR, k.r(("seq", seq), tail))
def q(f, to=60000):
    s = z3.Solver(); s.set("timeout", to); s.add(*f); t = time.time(); r = s.check(); return str(r), round(time.time() - t, 2), (s.model() if str(r) == "sat" else None)
if __name__ == "__main__":
    t0 = time.time(); M = {p: marked(p) for p in _regex}; print("built", len(M), round(time.time() - t0, 1))
    x = z3.String("x")
    for w in ("siebenundzwanzig tage", "sechzehn tage", "einunddreißig tage", "vier tage", "twentyseven days", "einundzwanzig tage", "eintage", "ein tage"):
        print("138 %-24s" % w, q([x == MK + w + MK, z3.InRe(x, M[138])])[:2])
    # differential validation vs real engine on a few strings with context
    import regex
    tests = [("", "12:30", ""), ("1", "2:30", ""), ("", "12:30", "5"), ("", "8pm", ""), ("", "8", "pm"), ("x", "8 uhr", " y"), (".", "8", "")]
    for b, c, a in tests:
        real = any(m.span("R128") == (len(b), len(b) + len(c)) for m in _regex[128].finditer(b + c + a, overlapped=True))
        zz = q([x == b + MK + c + MK + a, z3.InRe(x, M[128])])[0] == "sat"
        print("128", (b, c, a), "engine-match-at-span:", real, "in-language:", zz)
    # universal: any 128 match followed by digit?
    print("128 followed by digit:", q([z3.InRe(x, z3.Intersect(M[128], z3.Concat(SIG, MKR, DIG, SIG)))])[:2])
    # TRAIL with context-aware language
    print("TRAIL:", [p for p in M if q([z3.InRe(x, z3.Intersect(M[p], z3.Concat(SIG, WS, MKR, NOMK)))])[0] != "unsat"])
    print("EPS:", [p for p in M if q([z3.InRe(x, z3.Intersect(M[p], z3.Concat(NOMK, MKR, MKR, NOMK)))])[0] != "unsat"])
