from datetime import datetime
from typing import Optional
from q1 import body, preds, wf_time, mk, PODS
from ctparse.types import Time

def step_DateTOD(y1: int, mo1: int, d1: int, h2: int, mi2: Optional[int]) -> bool:
    """
    pre: wf_time(Time(year=y1, month=mo1, day=d1)) and wf_time(Time(hour=h2, minute=mi2))
    post: _
    """
    a = Time(year=y1, month=mo1, day=d1); b = Time(hour=h2, minute=mi2)
    assert preds("ruleDateTOD")[0](a) and preds("ruleDateTOD")[1](b)
    r = body("ruleDateTOD")(datetime(2020, 1, 1), a, b)
    return r is None or (wf_time(r) and (r.year, r.month, r.day, r.hour, r.minute) == (y1, mo1, d1, h2, mi2))

def step_TODPOD(h: int, mi: Optional[int], p: int) -> bool:
    """
    pre: 0 <= p < len(PODS)
    pre: wf_time(Time(hour=h, minute=mi))
    post: _
    """
    a = Time(hour=h, minute=mi); b = Time(POD=PODS[p])
    r = body("ruleTODPOD")(datetime(2020, 1, 1), a, b)
    return r is None or wf_time(r)
