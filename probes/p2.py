from datetime import datetime
from ctparse.time import rules as R
from ctparse.types import Time
import ctparse.ctparse

_latent_dom = R.ruleLatentDOM.__closure__[0].cell_contents

def chk_latent_dom(y: int, mo: int, d: int, h: int, mi: int, dom: int) -> bool:
    """
    pre: 2016 <= y <= 2043 and 1 <= mo <= 12 and 1 <= d <= 28 and 0 <= h <= 23 and 0 <= mi <= 59 and 1 <= dom <= 31
    post: _
    """
    ts = datetime(y, mo, d, h, mi)
    t = _latent_dom(ts, Time(day=dom))
    return t.day == dom
