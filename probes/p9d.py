import sys, itertools
import ctparse.ctparse
C = sys.modules["ctparse.ctparse"]
from p9c import FM, _adj, _spec, _RegexShim, FakeTxt
SPANS = [(a, b) for a in range(5) for b in range(a + 1, 6)]
CONF = [c for r in (1, 2, 3) for c in itertools.combinations_with_replacement(range(len(SPANS)), r)]
def chk_stack(ci: int, k0: bool, k1: bool, k2: bool, k3: bool, k4: bool) -> bool:
    """
    pre: 0 <= ci < len(CONF)
    post: _
    """
    blank = [k0, k1, k2, k3, k4]
    ms = [FM(SPANS[s][0], SPANS[s][1], 100 + k) for k, s in enumerate(CONF[ci])]
    old = C.regex; C.regex = _RegexShim()
    try:
        got = C._regex_stack(FakeTxt(blank), ms)
    finally:
        C.regex = old
    return sorted(map(repr, got)) == sorted(map(repr, _spec(blank, ms)))
