import sys
from typing import List
import ctparse.ctparse
C = sys.modules["ctparse.ctparse"]
from ctparse.types import Time

def chk_best(scores: List[float]) -> bool:
    """
    pre: len(scores) <= 4
    pre: all(s == s and -1e9 < s < 1e9 for s in scores)
    post: _
    """
    cands = [C.CTParse(Time(hour=i), (i,), s, "subj", ["l"]) for i, s in enumerate(scores)]
    def fake_gen(*a, **k):
        for c in cands:
            yield c
    old = C.ctparse_gen
    C.ctparse_gen = fake_gen
    try:
        r = C.ctparse("x", timeout=0)
    finally:
        C.ctparse_gen = old
    if not scores:
        return r.resolution is None
    return any(r is c for c in cands) and all(r.score >= s for s in scores)
