from typing import List, Tuple
import itertools
import sys, ctparse.ctparse
C = sys.modules["ctparse.ctparse"]

class _WS:
    def fullmatch(self, s):
        for ch in s:
            if ch != " ":
                return None
        return True
class _RegexShim:
    VERSION1 = 0
    def compile(self, pat, flags=0):
        assert pat == r"\s*"
        return _WS()

class FM:
    def __init__(self, a, b, i):
        self.mstart = a; self.mend = b; self.id = i
    def __repr__(self): return "FM(%r,%r,%r)" % (self.mstart, self.mend, self.id)

def _adj(txt, m1, m2):
    if m2.mstart < m1.mend: return False
    return all(ch == " " for ch in txt[m1.mend:m2.mstart])


TXTS = ["xxxxx", "x x x", "xx  x", " x xx"]
def _spec(txt, ms):
    n = len(ms); exp = []
    for r in range(1, n + 1):
        for idx in itertools.combinations(range(n), r):
            if not all(_adj(txt, ms[idx[k]], ms[idx[k+1]]) for k in range(r - 1)): continue
            if any(_adj(txt, ms[p], ms[idx[0]]) for p in range(idx[0])): continue
            if any(_adj(txt, ms[idx[-1]], ms[q]) for q in range(idx[-1] + 1, n)): continue
            exp.append(tuple(ms[k] for k in idx))
    return exp
def chk_stack(ti: int, n: int, a0: int, b0: int, a1: int, b1: int, a2: int, b2: int) -> bool:
    """
    pre: 0 <= ti < len(TXTS) and 1 <= n <= 3
    pre: 0 <= a0 < b0 <= 5 and 0 <= a1 < b1 <= 5 and 0 <= a2 < b2 <= 5
    pre: (a0, b0) <= (a1, b1) <= (a2, b2)
    post: _
    """
    txt = TXTS[ti]
    ms = [FM(a, b, 100 + k) for k, (a, b) in enumerate([(a0, b0), (a1, b1), (a2, b2)][:n])]
    old = C.regex; C.regex = _RegexShim()
    try:
        got = C._regex_stack(txt, ms)
    finally:
        C.regex = old
    return sorted(map(repr, got)) == sorted(map(repr, _spec(txt, ms)))
