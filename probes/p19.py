import toy
def chk2(v0: int, v1: int, v2: int) -> bool:
    """
    pre: 0 <= v0 <= 2 and 0 <= v1 <= 2 and 0 <= v2 <= 2
    post: _
    """
    return toy.run([v0, v1, v2]) == toy.FULL
