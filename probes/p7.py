import re
from ctparse.ctparse import _get_labels

def chk_labels(txt: str) -> bool:
    """
    pre: len(txt) <= 4
    post: _
    """
    labels = _get_labels(txt)
    return all(isinstance(l, str) and '#' not in l for l in labels)

def chk_labels2(txt: str) -> bool:
    """
    pre: len(txt) <= 4
    post: _
    """
    labels = _get_labels(txt)
    return all(len(l) > 0 and l[0] != ' ' for l in labels)
