from datetime import datetime
from ctparse.types import Time
from t1 import body, _mdays
Y = 2024
def latent_dom(mo: int, d: int, h: int, mi: int, s: int, dom: int) -> bool:
    """
    pre: 1 <= mo <= 12 and 1 <= d <= _mdays(Y, mo) and 0 <= h <= 23 and 0 <= mi <= 59 and 0 <= s <= 59
    pre: 1 <= dom <= 28
    post: _
    """
    ts = datetime(Y, mo, d, h, mi, s)
    t = body("ruleLatentDOM")(ts, Time(day=dom))
    if dom > d: ey, em = Y, mo
    elif mo < 12: ey, em = Y, mo + 1
    else: ey, em = Y + 1, 1
    return (t.year, t.month, t.day, t.hour, t.minute, t.DOW, t.POD) == (ey, em, dom, None, None, None, None)
