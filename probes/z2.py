import z3, time, itertools
def prob(ks, timeout=60000):
    n=len(ks); K=sum(ks)
    c=[z3.Real('c%d'%i) for i in range(n)]
    o=z3.Real('o')  # mass of other tokens incl. smoothing
    S=sum(c)+o
    s=z3.Solver(); s.set('timeout',timeout)
    for ci,ki in zip(c,ks): s.add(ci>=ki+1)   # count incl alpha=1, doc already present
    s.add(o>=0)
    lhs=1; rhs=1
    for ci,ki in zip(c,ks):
        lhs=lhs*(ci+ki)**ki; rhs=rhs*ci**ki
    lhs=lhs*S**K; rhs=rhs*(S+K)**K
    s.add(lhs<rhs)
    t=time.time(); r=s.check(); return str(r), round(time.time()-t,2)
for ks in [(1,),(2,),(1,1),(2,1),(1,1,1),(3,),(2,2),(2,1,1),(3,1),(1,1,1,1),(2,2,1),(3,2,1)]:
    print(ks, prob(ks))
