from datetime import datetime
from typing import Optional
from ctparse.time import rules as R
from ctparse.types import Time, Interval, pod_hours
import ctparse.ctparse
from ctparse.rule import rules as REG

PODS = sorted(pod_hours)
def body(name): return REG[name][0].__closure__[0].cell_contents
def preds(name): return REG[name][1]

def mdays(y, m):
    if m == 2:
        if y is None: return 29
        return 29 if (y % 4 == 0 and (y % 100 != 0 or y % 400 == 0)) else 28
    return 30 if m in (4, 6, 9, 11) else 31

def wf_time(t) -> bool:
    if t.year is not None and not (1800 <= t.year <= 2200): return False
    if t.month is not None and not (1 <= t.month <= 12): return False
    if t.day is not None and not (1 <= t.day <= 31): return False
    if t.hour is not None and not (0 <= t.hour <= 23): return False
    if t.minute is not None and not (0 <= t.minute <= 59): return False
    if t.DOW is not None and not (0 <= t.DOW <= 6): return False
    if t.POD is not None and t.POD not in pod_hours: return False
    if t.month is not None and t.day is not None and t.day > mdays(t.year, t.month): return False
    return True

def mk(y, mo, d, h, mi, dow, podi):
    return Time(year=y, month=mo, day=d, hour=h, minute=mi, DOW=dow, POD=None if podi is None else PODS[podi])

def step_DateTOD(y1: Optional[int], mo1: Optional[int], d1: Optional[int], h1: Optional[int], mi1: Optional[int], dow1: Optional[int], p1: Optional[int],
                 y2: Optional[int], mo2: Optional[int], d2: Optional[int], h2: Optional[int], mi2: Optional[int], dow2: Optional[int], p2: Optional[int]) -> bool:
    """
    pre: p1 is None or 0 <= p1 < len(PODS)
    pre: p2 is None or 0 <= p2 < len(PODS)
    pre: wf_time(mk(y1, mo1, d1, h1, mi1, dow1, p1)) and wf_time(mk(y2, mo2, d2, h2, mi2, dow2, p2))
    pre: bool(preds("ruleDateTOD")[0](mk(y1, mo1, d1, h1, mi1, dow1, p1))) and bool(preds("ruleDateTOD")[1](mk(y2, mo2, d2, h2, mi2, dow2, p2)))
    post: _
    """
    a = mk(y1, mo1, d1, h1, mi1, dow1, p1); b = mk(y2, mo2, d2, h2, mi2, dow2, p2)
    r = body("ruleDateTOD")(datetime(2020, 1, 1), a, b)
    return r is None or (wf_time(r) and (r.year, r.month, r.day, r.hour, r.minute) == (y1, mo1, d1, h2, mi2))

def step_DOMMonth(y1: Optional[int], mo1: Optional[int], d1: Optional[int], h1: Optional[int], mi1: Optional[int], dow1: Optional[int], p1: Optional[int],
                 y2: Optional[int], mo2: Optional[int], d2: Optional[int], h2: Optional[int], mi2: Optional[int], dow2: Optional[int], p2: Optional[int]) -> bool:
    """
    pre: p1 is None or 0 <= p1 < len(PODS)
    pre: p2 is None or 0 <= p2 < len(PODS)
    pre: wf_time(mk(y1, mo1, d1, h1, mi1, dow1, p1)) and wf_time(mk(y2, mo2, d2, h2, mi2, dow2, p2))
    pre: bool(preds("ruleDOMMonth")[0](mk(y1, mo1, d1, h1, mi1, dow1, p1))) and bool(preds("ruleDOMMonth")[1](mk(y2, mo2, d2, h2, mi2, dow2, p2)))
    post: _
    """
    a = mk(y1, mo1, d1, h1, mi1, dow1, p1); b = mk(y2, mo2, d2, h2, mi2, dow2, p2)
    r = body("ruleDOMMonth")(datetime(2020, 1, 1), a, b)
    return r is None or wf_time(r)

class G:
    """group stub for ruleDDMMYYYY: numeric groups as ints rendered lazily"""
    def __init__(self, day, month, named, year): self.g = {"day": day, "month": month, "year": year}; self.named = named
    def group(self, name):
        if name in self.g:
            v = self.g[name]
            return None if v is None else str(v)
        if name == "named_month": return None if self.named is None else "x"
        from ctparse.time.rules import _months
        idx = [n for n, _ in _months].index(name)
        return "x" if self.named == idx else None
class M:
    def __init__(self, g): self.match = g

def base_DDMMYYYY(day: int, month: Optional[int], named: Optional[int], year: int) -> bool:
    """
    pre: 1 <= day <= 31
    pre: (month is None) != (named is None)
    pre: month is None or 1 <= month <= 12
    pre: named is None or 0 <= named <= 11
    pre: 1900 <= year <= 2029 or 0 <= year <= 99
    post: _
    """
    r = body("ruleDDMMYYYY")(datetime(2020, 1, 1), M(G(day, month, named, year)))
    m = month if month is not None else named + 1
    return r is not None and (r.day, r.month) == (day, m) and r.year == (year + 2000 if year < 100 else year) and wf_time(r)
