import sys, time, z3
import ctparse.ctparse
C = sys.modules['ctparse.ctparse']
def ranges(rx):
    out = []; start = None
    for cp in range(0x110000):
        if 0xD800 <= cp <= 0xDFFF: inn = True if rx is C._repl1 else False  # surrogates are Cs
        else: inn = bool(rx.fullmatch(chr(cp)))
        if inn and start is None: start = cp
        if not inn and start is not None: out.append((start, cp - 1)); start = None
    if start is not None: out.append((start, 0x10FFFF))
    return out
t = time.time(); R1 = ranges(C._repl1); R2 = ranges(C._repl2)
SP = [cp for cp in range(0x110000) if not (0xD800 <= cp <= 0xDFFF) and chr(cp).isspace()]
print(len(R1), len(R2), len(SP), round(time.time() - t, 1))
def inr(c, rs): return z3.Or(*[z3.And(c >= a, c <= b) if a != b else c == a for a, b in rs])
def isspace(c): return z3.Or(*[c == v for v in SP])
N = int(sys.argv[1]) if len(sys.argv) > 1 else 6
BL, DA = 32, 45
def sub_run(chars, n, rs, repl, tag):
    """maximal runs of class rs replaced by repl; returns (outchars, outlen)"""
    emit = []; o = []
    for i in range(len(chars)):
        live = i < n
        c = chars[i]
        incls = inr(c, rs)
        prev = inr(chars[i - 1], rs) if i > 0 else z3.BoolVal(False)
        emit.append(z3.And(live, z3.Or(z3.Not(incls), z3.Not(prev))))
        o.append(z3.If(incls, z3.IntVal(repl), c))
    return compact(emit, o, tag)
def compact(emit, o, tag):
    K = len(o)
    pos = []; acc = z3.IntVal(0)
    for i in range(K):
        pos.append(acc); acc = acc + z3.If(emit[i], 1, 0)
    out = []
    for k in range(K):
        v = z3.IntVal(-1)
        for i in range(K - 1, -1, -1):
            v = z3.If(z3.And(emit[i], pos[i] == k), o[i], v)
        out.append(v)
    return out, acc
def strip(chars, n, tag):
    K = len(chars)
    # leading: lead[i] = all chars before and including i are space
    lead = []; a = z3.BoolVal(True)
    for i in range(K):
        a = z3.And(a, i < n, isspace(chars[i])); lead.append(a)
    trail = [None] * K; a = z3.BoolVal(True)
    for i in range(K - 1, -1, -1):
        a = z3.If(i < n, z3.And(a, isspace(chars[i])), a); trail[i] = a
    emit = [z3.And(i < n, z3.Not(lead[i]), z3.Not(trail[i])) for i in range(K)]
    return compact(emit, chars, tag)
def P(chars, n, tag):
    a, na = sub_run(chars, n, R1, BL, tag + "a")
    b, nb = strip(a, na, tag + "b")
    c, nc = sub_run(b, nb, R2, DA, tag + "c")
    d, nd = strip(c, nc, tag + "d")
    return d, nd
cs = [z3.Int("c%d" % i) for i in range(N)]; n = z3.Int("n")
s = z3.Solver(); s.set("timeout", 300000)
s.add(n >= 0, n <= N)
for c in cs: s.add(c >= 0, c <= 0x10FFFF)
p1, n1 = P(cs, n, "x"); p2, n2 = P(p1, n1, "y")
s.add(z3.Or(n1 != n2, *[z3.And(k < n1, p1[k] != p2[k]) for k in range(N)]))
t = time.time(); r = s.check(); print("idempotent?", r, round(time.time() - t, 1))
if str(r) == "sat":
    m = s.model(); nn = m[n].as_long(); st = "".join(chr(m.eval(c, model_completion=True).as_long()) for c in cs[:nn])
    print(repr(st), repr(C._preprocess_string(st)), repr(C._preprocess_string(C._preprocess_string(st))))
