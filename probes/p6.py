from datetime import datetime, date, timedelta
from typing import Optional
from ctparse.time import rules as R
from ctparse.types import Time, Interval, pod_hours
import ctparse.ctparse

_date_interval = R.ruleDateInterval.__closure__[0].cell_contents

def _mdays(y: int, m: int) -> int:
    if m == 2:
        return 29 if (y % 4 == 0 and (y % 100 != 0 or y % 400 == 0)) else 28
    if m in (4, 6, 9, 11):
        return 30
    return 31

def chk_date_interval(y: int, mo: int, d: int, h1: int, m1: Optional[int], h2: int, m2: Optional[int]) -> bool:
    """
    pre: 1990 <= y <= 2029 and 1 <= mo <= 12 and 1 <= d <= _mdays(y, mo)
    pre: 0 <= h1 <= 23 and 0 <= h2 <= 23
    pre: m1 is None or 0 <= m1 <= 59
    pre: m2 is None or 0 <= m2 <= 59
    post: _
    """
    ts = datetime(2020, 1, 1)
    i = Interval(Time(hour=h1, minute=m1), Time(hour=h2, minute=m2))
    r = _date_interval(ts, Time(year=y, month=mo, day=d), i)
    if r is None:
        return True
    a = r.t_from.dt
    b = r.t_to.dt
    return a < b and b - a <= timedelta(hours=24) and (a.year, a.month, a.day, a.hour, a.minute) == (y, mo, d, h1, m1 or 0)
