# WINDOW and PREFILTER probes
import sys, itertools
import ctparse.ctparse
C = sys.modules["ctparse.ctparse"]
PP = sys.modules["ctparse.partial_parse"]
from ctparse.rule import regex_match, dimension
from ctparse.types import Artifact, RegexMatch, Time

def FRM(id, a, b):
    self = RegexMatch.__new__(RegexMatch)
    Artifact.__init__(self)
    self._attrs = ["mstart", "mend", "id"]; self.key = "R%d" % id; self.id = id; self.match = None
    self.mstart = a; self.mend = b; self._text = ""
    return self

def window(n: int, rl: int, b00: bool, b01: bool, b02: bool, b03: bool, b10: bool, b11: bool, b12: bool, b13: bool, b20: bool, b21: bool, b22: bool, b23: bool) -> bool:
    """
    pre: 1 <= n <= 4 and 1 <= rl <= 3
    post: _
    """
    tab = [[b00, b01, b02, b03], [b10, b11, b12, b13], [b20, b21, b22, b23]]
    seq = [FRM(100 + i, i, i + 1) for i in range(n)]
    def mkp(k):
        def p(x): return tab[k][x.mstart]
        return p
    rule = [mkp(k) for k in range(rl)]
    got = list(C._match_rule(seq, rule))
    exp = [(i, i + rl) for i in range(n - rl + 1) if all(tab[k][i + k] for k in range(rl))]
    return got == exp

def _embeddable(ids, pat):
    # pat elements: int id (regex) or None (predicate needing >=1 original element)
    # exists order-preserving assignment: regex elems -> positions with equal id, each predicate elem -> nonempty gap
    n, m = len(ids), len(pat)
    def rec(i, j):  # i: next seq index, j: next pat index
        if j == m: return True   # trailing leftovers fine (window need not cover all)
        if pat[j] is None:
            # consume >=1 element, any ids
            return any(rec(i2, j + 1) for i2 in range(i + 1, n + 1))
        return i < n and ids[i] == pat[j] and rec(i + 1, j + 1)
    return any(rec(i, 0) for i in range(n + 1))

def prefilter(n: int, m: int, s0: int, s1: int, s2: int, s3: int, p0: int, p1: int, p2: int) -> bool:
    """
    pre: 1 <= n <= 4 and 1 <= m <= 3
    pre: all(0 <= v <= 1 for v in (s0, s1, s2, s3))
    pre: all(-1 <= v <= 1 for v in (p0, p1, p2))
    pre: not (p0 >= 0 and p1 >= 0 and m >= 2) and not (p1 >= 0 and p2 >= 0 and m >= 3)
    post: _
    """
    ids = [s0, s1, s2, s3][:n]; pat = [p0, p1, p2][:m]
    seq = [FRM(100 + v, i, i + 1) for i, v in enumerate(ids)]
    pats = [regex_match(100 + v) if v >= 0 else dimension(Time) for v in pat]
    got = next(PP._seq_match(seq, pats), None) is not None
    need = _embeddable(ids, [v if v >= 0 else None for v in pat])
    return got or not need
