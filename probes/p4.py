from datetime import datetime, date, timedelta
from ctparse.time import rules as R
from ctparse.types import Time, Interval
from ctparse.time.postprocess_latent import apply_postprocessing_rules
import ctparse.ctparse

_latent_dow = R.ruleLatentDOW.__closure__[0].cell_contents
_next_dow = R.ruleNextDOW.__closure__[0].cell_contents

def _mdays(y: int, m: int) -> int:
    if m == 2:
        return 29 if (y % 4 == 0 and (y % 100 != 0 or y % 400 == 0)) else 28
    if m in (4, 6, 9, 11):
        return 30
    return 31

def chk_latent_dow(y: int, mo: int, d: int, h: int, mi: int, dow: int) -> bool:
    """
    pre: 2016 <= y <= 2043 and 1 <= mo <= 12 and 1 <= d <= _mdays(y, mo) and 0 <= h <= 23 and 0 <= mi <= 59 and 0 <= dow <= 6
    post: _
    """
    ts = datetime(y, mo, d, h, mi)
    t = _latent_dow(ts, Time(DOW=dow))
    r = date(t.year, t.month, t.day)
    delta = r.toordinal() - ts.date().toordinal()
    return r.weekday() == dow and 1 <= delta <= 7

def chk_latent_tod(y: int, mo: int, d: int, h: int, mi: int, hh: int, mm: int) -> bool:
    """
    pre: 2016 <= y <= 2043 and 1 <= mo <= 12 and 1 <= d <= _mdays(y, mo) and 0 <= h <= 23 and 0 <= mi <= 59 and 0 <= hh <= 23 and 0 <= mm <= 59
    post: _
    """
    ts = datetime(y, mo, d, h, mi)
    t = apply_postprocessing_rules(ts, Time(hour=hh, minute=mm))
    r = datetime(t.year, t.month, t.day, t.hour, t.minute)
    return t.hour == hh and t.minute == mm and r > ts and r - ts <= timedelta(days=1)
