from ctparse.types import Artifact, Time
class A(Artifact):
    def __init__(self, v):
        super().__init__(); self._attrs = ["v"]; self.v = v
def f(x: int) -> bool:
    """
    pre: 0 <= x <= 3
    post: _
    """
    d = {}
    d[(A(3), A(4))] = 1
    return True
def g(x: int) -> bool:
    """
    pre: 0 <= x <= 3
    post: _
    """
    d = {}
    d[(A(x), A(4))] = 1
    return (A(x), A(4)) in d
def h(x: int) -> bool:
    """
    pre: 0 <= x <= 3
    post: _
    """
    d = {}
    d[(Time(hour=x), Time(hour=4))] = 1
    return (Time(hour=x), Time(hour=4)) in d and (Time(hour=x+1), Time(hour=4)) not in d
