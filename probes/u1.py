import sys
from datetime import datetime
import ctparse.ctparse
C = sys.modules["ctparse.ctparse"]
from ctparse.scorer import DummyScorer
Y = 2024
def _mdays(y: int, m: int) -> int:
    if m == 2:
        return 29 if (y % 4 == 0 and (y % 100 != 0 or y % 400 == 0)) else 28
    return 30 if m in (4, 6, 9, 11) else 31
def api_tomorrow(mo: int, d: int, h: int, mi: int) -> bool:
    """
    pre: 1 <= mo <= 12 and 1 <= d <= _mdays(Y, mo) and 0 <= h <= 23 and 0 <= mi <= 59
    post: _
    """
    ts = datetime(Y, mo, d, h, mi)
    r = C.ctparse("tomorrow", ts=ts, timeout=0, scorer=DummyScorer())
    t = r.resolution
    if d < _mdays(Y, mo): e = (Y, mo, d + 1)
    elif mo < 12: e = (Y, mo + 1, 1)
    else: e = (Y + 1, 1, 1)
    return (t.year, t.month, t.day, t.hour, t.minute) == e + (None, None)
C.ctparse("tomorrow", ts=datetime(2020, 1, 1), timeout=0, scorer=DummyScorer())  # warm the regex module's pattern cache
