from datetime import datetime, date
from ctparse.time import rules as R
from ctparse.types import Time
import ctparse.ctparse
_dowdom = R.ruleDOWDOM.__closure__[0].cell_contents
Y=2024; MO=2
def chk(d: int, h: int, mi: int, dow: int, dom: int) -> bool:
    """
    pre: 1 <= d <= 29 and 0 <= h <= 23 and 0 <= mi <= 59 and 0 <= dow <= 6 and 1 <= dom <= 31
    post: _
    """
    ts = datetime(Y, MO, d, h, mi)
    t = _dowdom(ts, Time(DOW=dow), Time(day=dom))
    r = date(t.year, t.month, t.day)
    return r.weekday() == dow and t.day == dom and r >= ts.date()
