from typing import List, Tuple
import itertools
import sys, ctparse.ctparse
C = sys.modules["ctparse.ctparse"]

class _WS:
    def fullmatch(self, s):
        for ch in s:
            if ch != " ":
                return None
        return True
class _RegexShim:
    VERSION1 = 0
    def compile(self, pat, flags=0):
        assert pat == r"\s*"
        return _WS()

class FM:
    def __init__(self, a, b, i):
        self.mstart = a; self.mend = b; self.id = i
    def __repr__(self): return "FM(%r,%r,%r)" % (self.mstart, self.mend, self.id)

def _adj(txt, m1, m2):
    if m2.mstart < m1.mend: return False
    return all(ch == " " for ch in txt[m1.mend:m2.mstart])

def chk_stack(blank: List[bool], spans: List[Tuple[int, int]]) -> bool:
    """
    pre: len(blank) == 6
    pre: 1 <= len(spans) <= 3
    pre: all(0 <= a < b <= 6 for a, b in spans)
    pre: all(spans[i] < spans[i+1] for i in range(len(spans)-1))
    post: _
    """
    txt = "".join(" " if b else "x" for b in blank)
    ms = [FM(a, b, 100 + k) for k, (a, b) in enumerate(spans)]
    old = C.regex
    C.regex = _RegexShim()
    try:
        got = C._regex_stack(txt, ms)
    finally:
        C.regex = old
    n = len(ms)
    exp = []
    for r in range(1, n + 1):
        for idx in itertools.combinations(range(n), r):
            ok = all(_adj(txt, ms[idx[k]], ms[idx[k+1]]) for k in range(r - 1))
            if not ok: continue
            # maximal: no predecessor of first, no successor of last
            if any(_adj(txt, ms[p], ms[idx[0]]) for p in range(idx[0])): continue
            if any(_adj(txt, ms[idx[-1]], ms[q]) for q in range(idx[-1] + 1, n)): continue
            exp.append(tuple(ms[k] for k in idx))
    return sorted(map(repr, got)) == sorted(map(repr, exp))
