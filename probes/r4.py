import sys
from datetime import datetime
import ctparse.ctparse
C = sys.modules["ctparse.ctparse"]
from ctparse.scorer import DummyScorer
TS = datetime(2020, 1, 1, 7, 0)
A, B = "8pm", "mon"
def solo(t): return [(repr(p.resolution), p.production) for p in C.ctparse_gen(t, TS, timeout=0, scorer=DummyScorer())]
SA, SB = solo(A), solo(B)
def interleave(s0: bool, s1: bool, s2: bool, s3: bool) -> bool:
    """
    post: _
    """
    ga = C.ctparse_gen(A, TS, timeout=0, scorer=DummyScorer()); gb = C.ctparse_gen(B, TS, timeout=0, scorer=DummyScorer())
    oa, ob = [], []
    da = db = False
    for s in (s0, s1, s2, s3):
        if s and not da:
            try: p = next(ga); oa.append((repr(p.resolution), p.production))
            except StopIteration: da = True
        elif not db:
            try: p = next(gb); ob.append((repr(p.resolution), p.production))
            except StopIteration: db = True
    for p in ga: oa.append((repr(p.resolution), p.production))
    for p in gb: ob.append((repr(p.resolution), p.production))
    return oa == SA and ob == SB
