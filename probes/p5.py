from datetime import datetime, date, timedelta
from ctparse.time import rules as R
from ctparse.types import Time, Interval
import ctparse.ctparse

_latent_dow = R.ruleLatentDOW.__closure__[0].cell_contents
Y = 2024
MO = 2
def _mdays(y: int, m: int) -> int:
    if m == 2:
        return 29 if (y % 4 == 0 and (y % 100 != 0 or y % 400 == 0)) else 28
    if m in (4, 6, 9, 11):
        return 30
    return 31

def chk_latent_dow(d: int, h: int, mi: int, dow: int) -> bool:
    """
    pre: 1 <= d <= _mdays(Y, MO) and 0 <= h <= 23 and 0 <= mi <= 59 and 0 <= dow <= 6
    post: _
    """
    ts = datetime(Y, MO, d, h, mi)
    t = _latent_dow(ts, Time(DOW=dow))
    r = date(t.year, t.month, t.day)
    delta = r.toordinal() - ts.date().toordinal()
    return r.weekday() == dow and 1 <= delta <= 7
