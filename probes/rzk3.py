from rzk2 import *
x = z3.String("x")
for pid in (128, 127, 108, 111, 126):
    r = q([z3.InRe(x, z3.Intersect(marked(pid), z3.Concat(NOMK, MKR, NOMK, MKR, DIG, SIG)))])
    print(pid, "match followed by digit:", r[0], r[1], repr(r[2][x].as_string()) if r[2] else "")
# look-behind: preceded by digit or dot
for pid in (128, 108):
    r = q([z3.InRe(x, z3.Intersect(marked(pid), z3.Concat(SIG, z3.Union(DIG, L(".")), MKR, SIG)))])
    print(pid, "match preceded by digit/dot:", r[0], r[1])
