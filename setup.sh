#!/bin/bash
# Builds the overlay environment used by every check: /venv (the repository's own
# interpreter and dependencies) + crosshair-tool + z3-solver from the offline wheelhouse.
# Idempotent; safe to call concurrently (flock).
set -e
cd "$(dirname "$0")"
V=/verif/.venv
exec 9>/verif/.venv.lock
flock 9
if [ -x "$V/bin/crosshair" ] && "$V/bin/python" -c "import crosshair, z3, ctparse" 2>/dev/null; then
  exit 0
fi
rm -rf "$V"
/venv/bin/python -m venv "$V"
SP=$("$V/bin/python" -c "import sysconfig; print(sysconfig.get_paths()['purelib'])")
echo "import site; site.addsitedir('/venv/lib/python3.12/site-packages')" > "$SP/overlay.pth"
PIP_NO_INDEX=1 "$V/bin/pip" install -q --no-index --find-links /opt/veriftools/wheels crosshair-tool z3-solver cvc5 2>&1 | tail -3 || true
"$V/bin/python" -c "import crosshair, z3, ctparse; print('overlay ok', z3.get_version_string())"
